"""C10 — configuration store behaves as a path -> value map."""
import itertools

from .. import gen

id = "C10"
area = "config"
driver = "drv_config"
cxx = False
fixed_lines = 1
link_extra = ("-Wl,--wrap=malloc",)   # 'g failsize n': allocation failure by size inside an assignment
per_process = 25   # the global tree is process-global; 'g begin'/'g end' empty it, a fault costs its batch only
rule = ("scripts = 'g begin', ops, 'g end' (both empty the process-global tree), 25 scripts per driver process; stream 1 (exhaustive small scope): every "
        "history of length <=3 (quick) / <=4 (thorough) of set/del over the 6 paths a, a.b, a.b.c, a.c, b, a..b "
        "(shared prefixes, prefix-of-another, empty element) on the global tree, each followed by a get of all 6 paths; "
        "stream 2: the same histories with mixed front ends (NULL config, sub-tree views a / a.b, private list through "
        "mpt_node_assign/mpt_node_query, separators '.' and '/'); stream 3: path text splitting (mpt_path_set + "
        "mpt_path_next) for all texts over {a,b,sep} up to length 5 with and without an assign character and with every explicit length, "
        "mpt_path_last after 0..3 consumed elements, path building with mpt_path_addchar/valid/add/del in separator and "
        "binary mode; stream 4: random histories with element and value lengths from {0,1,2,254,255,256,300} and "
        "repeated elements; stream 5: random histories with binary length mode paths on the global tree and the private "
        "list; second part (private C++ configuration mpt::config::root through harness/drvxx_config.cpp, one process for "
        "many scripts): every history of length <=3/<=4 of set/del over the 6 paths with gets of all; the slot re-use region "
        "(an element with k in 0..5 children on a level of m in 1..4 items, at every position, on the top level and below "
        "another element, is removed, optionally a sibling too, then a new name / the same name / a sibling / a new name with "
        "child is assigned on that level; all old and new paths queried before and after); mpt::path::add/next/del; random "
        "histories over a 6-name pool with depth <=3, clear, and names/values across 255 bytes; stream 8: remove with an "
        "empty and with a NULL path, assign and query with an empty path, on the global object and through views on a valued "
        "inner element, a leaf, a partially existing and a missing base, alone, in pairs and mixed with set/del; views made "
        "from a partly consumed path (after 1..2 mpt_path_next calls, after mpt_path_last); stream 7: every path of <=4 (5) "
        "elements over {a,bb,ccc,empty} built with addchar/valid/add in both modes, advanced by 0..n-1 mpt_path_next calls "
        "on the same object (offset > 0), then del + add of another element + walk; string-backed paths (mpt_path_set of 1..4 "
        "elements with changing names) advanced by 0..n mpt_path_next calls and then extended by 1..3 elements through "
        "addchar/valid/add; stream 6 (both parts): refused "
        "assignments - an int32 value (no text form) and a path element of 65535/65536 bytes at every position - on paths "
        "with 0..3 missing elements through every front end (NULL config, private list, views on an inner element, a valued "
        "leaf and a missing base), existence of every prefix checked before and after; every output line lists ALL elements "
        "of the trees (with and without value), compared with the specification's set of existing elements; non-trivial = a history in which a removal or an overwrite changed the stored pairs while "
        "at least two pairs were stored (seen in the code's output), counted per distinct script")
assumptions = [
    "path texts and values are C strings (no zero byte); the assign character is 0 for set/get/del as in mpt_config_set/get",
    "the node list operations used by the configuration tree behave as C14 shows (first match, append, unlink+destroy)",
    "malloc fails only where a script injects it ('g failsize n' before an assignment whose only missing element is the "
    "last one: the separately allocated name of that element fails)",
    "which elements exist (with or without value) is part of the specification for the node trees: the non-empty "
    "prefixes of every accepted assignment since the last removal that covered them, and nothing else (a refused "
    "assignment changes nothing); for the C++ item arrays an element emptied by remove may be reported present or absent",
    "an assignment has to be accepted iff the value is a text and every path element is shorter than 65535 bytes "
    "(identifier limit); elements of exactly 65534 bytes are not driven (output size)",
]
trusted = ["hand-written model MptModel/Impl/Config.lean tied to mptcore/config/*.c by harness/drv_config.c",
           "hand-written model MptModel/Impl/ConfigItems.lean tied to mpt++/config.cpp + mptcore/config/config_item_*.c by "
           "harness/drvxx_config.cpp (code under test compiled into the driver with UBSan's vptr check off)"]


def corpus(chk):
    return [(n, sc) for n, sc in gen.corpus(id) if sc and sc[0].startswith("g ")]


def hx(s):
    if isinstance(s, str):
        s = s.encode()
    return s.hex() if s else "-"


PATHS = ["a", "a.b", "a.b.c", "a.c", "b", "a..b"]


def _probe(tree="-", sep="."):
    return ["g get %s %s %s" % (tree, hx(p.replace(".", sep)), hx(sep)) for p in PATHS]


def _stream1(tier):
    out = []
    ops = []
    for i, p in enumerate(PATHS):
        ops.append("g set - %s 2e %s" % (hx(p), hx("v%d" % i)))
        ops.append("g del - %s 2e" % hx(p))
    top = 3 if tier == "quick" else 4
    for n in range(1, top + 1):
        for k, h in enumerate(itertools.product(range(len(ops)), repeat=n)):
            lines = ["g begin"]
            for j, i in enumerate(h):
                op = ops[i]
                if op.startswith("g set"):
                    op = op[:op.rindex(" ")] + " " + hx("w%d%d" % (j, i))
                lines.append(op)
            lines += _probe() + ["g end"]
            out.append(("ex:%d:%s" % (n, "-".join(map(str, h))), lines))
    return out


def _stream2(tier, r):
    out = []
    fronts = ["-", "-", "0", "1", "r"]
    n = 400 if tier == "quick" else 4000
    for k in range(n):
        lines = ["g begin", "g view 61 2e", "g view %s 2f" % hx("a/b")]
        for _ in range(r.choice([2, 3, 5, 8])):
            tr = r.choice(fronts)
            sep = r.choice([".", ".", "/"])
            p = r.choice(PATHS + ["c", "b.a", "", "a.", ".a"])
            if tr in ("0", "1"):
                p = r.choice(["b", "c", "b.c", "c.d", "", "x"])
            ptxt = hx(p.replace(".", sep))
            kind = r.choice(["set", "set", "set", "del", "get"])
            if tr == "r" and kind == "del":
                kind = "set"
            if kind == "set":
                lines.append("g set %s %s %s %s" % (tr, ptxt, hx(sep), hx("x%d" % r.randrange(100))))
            elif kind == "del":
                lines.append("g del %s %s %s" % (tr, ptxt, hx(sep)))
            else:
                lines.append("g get %s %s %s" % (tr, ptxt, hx(sep)))
        lines += _probe() + _probe("r") + ["g get 0 %s 2e" % hx(p) for p in ("b", "b.c", "c")] + ["g get 1 63 2e", "g end"]
        out.append(("mix:%d" % k, lines))
    return out


def _stream3(tier):
    out = []
    lines = ["g begin"]
    alpha = "ab."
    top = 5 if tier == "quick" else 6
    for n in range(0, top + 1):
        for t in itertools.product(alpha, repeat=n):
            s = "".join(t)
            lines.append("g split %s 2e -" % hx(s))
            if n <= 4:
                for skip in range(0, 4):
                    lines.append("g last %s 2e %d" % (hx(s), skip))
                for take in range(0, n + 1):
                    lines.append("g splitn %s 2e %d" % (hx(s), take))
            if len(lines) > 400:
                out.append(("path:%d" % len(out), lines + ["g end"]))
                lines = ["g begin"]
    # assign character inside the text, other separators
    for n in range(0, 5):
        for t in itertools.product("a.=", repeat=n):
            s = "".join(t)
            lines.append("g split %s 2e 3d" % hx(s))
            lines.append("g split %s 3d 2e" % hx(s))
    out.append(("path:assign", lines + ["g end"]))
    lines = ["g begin"]
    # element lengths around the 8 bit field
    for l1 in (0, 1, 254, 255, 256, 257, 300, 511, 512, 513):
        for l2 in (0, 1, 255, 256, 257):
            s = "x" * l1 + "." + "y" * l2
            lines.append("g split %s 2e -" % hx(s))
            for skip in (0, 1):
                lines.append("g last %s 2e %d" % (hx(s), skip))
            s3 = s + ".z"
            lines.append("g last %s 2e 1" % hx(s3))
    out.append(("path:long", lines + ["g end"]))
    lines = ["g begin"]
    for mode in "sb":
        for n in range(1, 4):
            for t in itertools.product(["", "a", "bc", "def"], repeat=n):
                lines.append("g build %s 2e %s" % (mode, ",".join(hx(e) for e in t)))
        for l1 in (254, 255, 256, 257, 300):
            lines.append("g build %s 2e %s,%s" % (mode, hx("x" * l1), hx("ab")))
            lines.append("g build %s 2e %s,%s" % (mode, hx("ab"), hx("x" * l1)))
        lines.append("g build %s 2e %s" % (mode, hx("a.b")))
        # separators with the high bit set
        for sepx in ("e9", "80", "ff"):
            lines.append("g build %s %s %s,%s,%s" % (mode, sepx, hx("ab"), hx("cd"), hx("e")))
    out.append(("path:build", lines + ["g end"]))
    return out


def _stream4(tier, r, scale):
    out = []
    n = (150 if tier == "quick" else 2000) * scale
    lens = [0, 1, 1, 2, 2, 254, 255, 256, 300]
    for k in range(n):
        names = []
        for _ in range(4):
            L = r.choice(lens)
            names.append(chr(r.choice([0x61, 0x62, 0x7a])) * L)
        paths = []
        for _ in range(5):
            depth = r.choice([1, 2, 2, 3])
            paths.append(".".join(r.choice(names) for _ in range(depth)))
        lines = ["g begin"]
        for _ in range(r.choice([3, 6, 10])):
            p = r.choice(paths)
            kind = r.choice(["set", "set", "set", "del", "get"])
            if kind == "set":
                v = chr(r.choice([0x76, 0x77])) * r.choice(lens)
                lines.append("g set %s %s 2e %s" % (r.choice(["-", "-", "r"]), hx(p), hx(v)))
            elif kind == "del":
                lines.append("g del - %s 2e" % hx(p))
            else:
                lines.append("g get %s %s 2e" % (r.choice(["-", "r"]), hx(p)))
        for p in paths:
            lines.append("g get - %s 2e" % hx(p))
            lines.append("g get r %s 2e" % hx(p))
        lines.append("g end")
        out.append(("rnd:%d" % k, lines))
    return out


def _stream5(tier, r):
    """binary length mode paths (built with addchar/valid/add) on the global tree and the private list"""
    out = []
    elems = [["a"], ["a", "b"], ["a", "cc", "d"], ["a", "b", "zz"], ["b"], ["a", "cc"], ["ccc", "a"]]
    fmt = lambda e: ",".join(hx(x) for x in e)
    n = 150 if tier == "quick" else 1500
    for k in range(n):
        lines = ["g begin"]
        for _ in range(r.choice([2, 3, 5, 8])):
            e = r.choice(elems)
            tr = r.choice(["-", "-", "r"])
            if r.random() < 0.7:
                lines.append("g bset %s %s %s" % (tr, fmt(e), hx("b%d" % r.randrange(100))))
            else:
                lines.append("g bget %s %s" % (tr, fmt(e)))
        for e in elems:
            lines.append("g bget - %s" % fmt(e))
            lines.append("g bget r %s" % fmt(e))
        lines += _probe() + ["g end"]
        out.append(("bin:%d" % k, lines))
    return out


def _stream6(tier, r):
    """refused assignments (a value without text form; an element that does not fit an identifier) on paths with
    missing elements, on every front end, followed by existence checks of all prefixes: nothing may have changed"""
    out = []
    def has(tr, p, sep="."):
        return "g has %s %s %s" % (tr, hx(p.replace(".", sep)), hx(sep))
    def prefixes(p):
        e = p.split(".")
        return [".".join(e[:i]) for i in range(1, len(e) + 1)]
    preludes = [[], ["g set - %s 2e %s" % (hx("a.b"), hx("1"))], ["g set - %s 2e %s" % (hx("a"), hx("1"))],
                ["g set - %s 2e %s" % (hx("a.b"), hx("1")), "g set - %s 2e %s" % (hx("c"), hx("2"))],
                ["g set r %s 2e %s" % (hx("a.b"), hx("1"))]]
    targets = ["a", "a.b", "a.b.c", "a.c", "c", "c.d", "c.d.e", "a.b.c.d"]
    fronts = [("-", ""), ("r", ""), ("0", "a"), ("1", "a.b"), ("2", "q.r")]
    k = 0
    for pre in preludes:
        for tr, base in fronts:
            for t in targets:
                if tr not in ("-", "r") and t.startswith("a"):
                    t = t[2:] if len(t) > 2 else "z"
                full = (base + "." + t) if base else t
                checks = [has("-" if tr != "r" else "r", q) for q in prefixes(full)]
                if tr not in ("-", "r"):
                    checks += [has(tr, q) for q in prefixes(t)]
                probe = _probe() + (_probe("r") if tr == "r" else [])
                head = ["g begin", "g view 61 2e", "g view %s 2e" % hx("a.b"), "g view %s 2e" % hx("q.r")] + pre
                # a value without text form
                out.append(("ref:i:%d" % k, head + checks + ["g seti %s %s 2e" % (tr, hx(t))] + checks + probe + ["g end"]))
                # ... and the same path assigned for real afterwards
                out.append(("ref:is:%d" % k, head + ["g seti %s %s 2e" % (tr, hx(t)), "g set %s %s 2e %s" % (tr, hx(t), hx("v"))]
                            + checks + probe + ["g end"]))
                k += 1
    # an element of 65535 bytes and more at every position of the path
    j = 0
    for pre in preludes[:3]:
        for tr, base in fronts:
            for ppre, suf in (("", ""), ("c.", ""), ("c.d.", ""), ("a.", ""), ("a.b.", ".z"), ("c.", ".z"), ("", ".z.y")):
                for n in ((65535, 65536) if tier == "quick" else (65535, 65536, 66000, 70000)):
                    names = [q for q in prefixes((ppre + "L" + suf)) if "L" not in q]
                    checks = []
                    for q in names:
                        full = (base + "." + q) if base else q
                        checks.append(has("-" if tr != "r" else "r", full))
                    head = ["g begin", "g view 61 2e", "g view %s 2e" % hx("a.b"), "g view %s 2e" % hx("q.r")] + pre
                    if base:
                        checks += [has("-", q) for q in prefixes(base)]
                    probe = _probe() + (_probe("r") if tr == "r" else [])
                    out.append(("ref:l:%d" % j, head + checks + ["g setl %s %s %d %s 2e %s" % (tr, hx(ppre), n, hx(suf), hx("v"))]
                                + checks + probe + ["g end"]))
                    j += 1
    # random mixes
    for i in range(150 if tier == "quick" else 1500):
        lines = ["g begin", "g view 61 2e", "g view %s 2e" % hx("a.b"), "g view %s 2e" % hx("q.r")]
        pool = ["a", "a.b", "a.b.c", "c", "c.d", "b", "q", "q.r", "q.r.s", "a.b.z"]
        for _ in range(r.choice([4, 8, 12])):
            tr = r.choice(["-", "-", "r", "0", "1", "2"])
            t = r.choice(pool)
            kind = r.choice(["set", "set", "seti", "seti", "del", "has", "has", "setl"])
            if tr == "r" and kind == "del":
                kind = "has"
            if kind == "set":
                lines.append("g set %s %s 2e %s" % (tr, hx(t), hx("v%d" % r.randrange(50))))
            elif kind == "seti":
                lines.append("g seti %s %s 2e" % (tr, hx(t)))
            elif kind == "del":
                lines.append("g del %s %s 2e" % (tr, hx(t)))
            elif kind == "setl":
                lines.append("g setl %s %s %d %s 2e %s" % (tr, hx(r.choice(["", "c.", "a.b.", "n.m."])), r.choice([65535, 65600]),
                                                         hx(r.choice(["", ".z"])), hx("v")))
            else:
                lines.append(has(tr, t))
        for t in pool + ["n", "n.m"]:
            lines.append(has("-", t))
            lines.append(has("r", t))
        out.append(("ref:rnd:%d" % i, lines + _probe() + ["g end"]))
    return out


def _stream7(tier):
    """a built path that was advanced with mpt_path_next (offset > 0): del the last element, add another, walk"""
    lines = ["g begin"]
    pool = ["a", "bb", "ccc", ""]
    fmt = lambda e: ",".join(hx(x) for x in e)
    for mode in ("s", "b"):
        for n in range(1, 5 if tier == "quick" else 6):
            for es in itertools.product(pool, repeat=n):
                for skip in range(0, n):
                    for e2 in ("dd", "", "a"):
                        if n >= 4 and (e2 != "dd" or tier == "quick" and "" in es):
                            continue
                        lines.append("g rebuild %s 2e %s %d %s" % (mode, fmt(es), skip, hx(e2)))
    # a path that refers to a plain string, advanced by next, then extended (the first added character moves the
    # data to an own buffer); element names differ from line to line so that stale heap content cannot look right
    k = 0
    for n in range(1, 5):
        for skip in range(0, n + 1):
            for add in range(1, 4):
                for rep in range(2 if tier == "quick" else 6):
                    k += 1
                    text = ".".join("%c%c%d" % (97 + (k + i) % 26, 97 + (3 * k + i) % 26, k) for i in range(n))
                    els = ["%c%d%c" % (65 + (k + 5 * j) % 26, k, 97 + (k + j) % 26) * (1 + (k + j) % 3) for j in range(add)]
                    lines.append("g extend 2e %s %d %s" % (hx(text), skip, fmt(els)))
    for text, skip, els in (("", 0, ["a"]), ("", 1, ["a"]), ("a..b", 2, ["", "c"]), (".", 1, ["x"]), ("ab", 1, ["", ""]),
                            ("x" * 300 + ".b", 1, ["c"]), ("a." + "y" * 300, 1, ["z" * 256, "q"])):
        lines.append("g extend 2e %s %d %s" % (hx(text), skip, fmt(els)))
    # a built path (own buffer) is set anew from a text
    for els, text in ((["a"], "x.y"), (["ab", "", "c"], ""), (["q" * 300], "a..b"), (["a", "b"], "zz")):
        lines.append("g reuse 2e %s %s" % (fmt(els), hx(text)))
    # ... also when the object was first used in binary length mode
    for els, text in ((["a"], "x.y"), (["ab", "c"], "abc.de.f"), (["a", "b", "c"], "zz"), (["q" * 200], "a..b")):
        lines.append("g reuse 2e %s %s b" % (fmt(els), hx(text)))
    for l1 in (254, 255, 256):
        for mode in ("s", "b"):
            lines.append("g rebuild %s 2e %s,%s,%s 1 %s" % (mode, hx("x" * l1), hx("ab"), hx("c"), hx("y" * (l1 - 1))))
    out = []
    step = 400
    body = lines[1:]
    for i in range(0, len(body), step):
        out.append(("rebuild:%d" % (i // step), ["g begin"] + body[i:i + step] + ["g end"]))
    return out


def _stream8(tier, r):
    """the empty-path forms of the config interface (remove with an empty / NULL path, assign and query with an empty
    path) on the global object and through views on a valued inner element, a leaf, a value-less element, a partially
    existing and a missing base"""
    out = []
    preludes = [[], ["g set - %s 2e %s" % (hx("a.b.c"), hx("1")), "g set - %s 2e %s" % (hx("a.b"), hx("2")),
                     "g set - %s 2e %s" % (hx("a.d"), hx("3")), "g set - %s 2e %s" % (hx("e"), hx("4"))],
                ["g set - %s 2e %s" % (hx("a.b.c.d"), hx("1")), "g set - %s 2e %s" % (hx("a.x"), hx("2"))],
                ["g set - %s 2e %s" % (hx("q"), hx("9"))]]
    views = ["a", "a.b", "a.b.c", "q.r", "e"]
    head = ["g begin"] + ["g view %s 2e" % hx(v) for v in views]
    probes = ["g get - %s 2e" % hx(p) for p in ("a", "a.b", "a.b.c", "a.b.c.d", "a.d", "a.x", "e", "q", "q.r")] + \
             ["g has - %s 2e" % hx(p) for p in ("a", "a.b", "a.b.c", "q", "q.r")]
    ops = ["g delp - empty", "g delp - null"]
    for i in range(len(views)):
        ops += ["g delp %d empty" % i, "g delp %d null" % i, "g setp %d %s" % (i, hx("n%d" % i)), "g getp %d" % i]
    ops += ["g setp - %s" % hx("g"), "g getp -"]
    k = 0
    for pre in preludes:
        for a in ops:
            out.append(("empty:%d" % k, head + pre + [a] + probes + ["g end"]))
            k += 1
        if tier != "quick" or pre is preludes[1]:
            for a in ops:
                for b in ops[2::3]:
                    out.append(("empty:%d" % k, head + pre + [a, b, "g set 1 %s 2e %s" % (hx("z"), hx("5"))] + probes + ["g end"]))
                    k += 1
    # views made from a partly consumed path (offset > 0): after mpt_path_next, and after mpt_path_last
    for j, (text, how) in enumerate([("x.a.b", "1"), ("x.a.b", "2"), ("x.a.b", "last"), ("xx.yy.a", "2"), ("q.a.b.c", "1"),
                                      ("q.a.b.c", "last"), ("a.b", "1"), ("long%s.a" % ("y" * 300), "1"), ("a.b.c", "0")]):
        for pre in preludes[:2]:
            lines = ["g begin"] + pre + ["g view %s 2e %s" % (hx(text), how), "g set 0 %s 2e %s" % (hx("z"), hx("7")),
                                         "g get 0 %s 2e" % hx("z"), "g get 0 %s 2e" % hx("c"), "g getp 0",
                                         "g set 0 %s 2e %s" % (hx("c.k"), hx("8")), "g del 0 %s 2e" % hx("z")]
            out.append(("empty:adv:%d" % k, lines + probes + ["g get - %s 2e" % hx(t) for t in ("x.a.z", "x.a", "b.z", "b.c.k", "a.z", "a.c.k", "c.z")] + ["g end"]))
            k += 1
    # views whose base is a binary length mode path: the same sub-tree as the view from the equivalent text path
    for j, base in enumerate((["a"], ["a", "b"], ["a", "b", "c"], ["q", "r"], ["e"])):
        for pre in preludes[:3]:
            lines = ["g begin"] + pre + ["g bview %s" % ",".join(hx(e) for e in base), "g view %s 2e" % hx(".".join(base)),
                     "g set 0 %s 2e %s" % (hx("z"), hx("7")), "g get 1 %s 2e" % hx("z"), "g get 0 %s 2e" % hx("z"), "g getp 0",
                     "g set 1 %s 2e %s" % (hx("y.k"), hx("8")), "g get 0 %s 2e" % hx("y.k"), "g del 0 %s 2e" % hx("z"), "g delp 0 empty"]
            out.append(("empty:bview:%d" % k, lines + probes + ["g end"]))
            k += 1
    for i in range(60 if tier == "quick" else 600):
        lines = list(head)
        for _ in range(r.choice([3, 6, 10])):
            if r.random() < 0.5:
                lines.append(r.choice(ops))
            else:
                tr = r.choice(["-", "0", "1", "2", "3"])
                t = r.choice(["a", "b", "b.c", "c", "a.b", "x.y"])
                lines.append(r.choice(["g set %s %s 2e %s" % (tr, hx(t), hx("v%d" % r.randrange(30))), "g del %s %s 2e" % (tr, hx(t))]))
        out.append(("empty:rnd:%d" % i, lines + probes + ["g end"]))
    return out



def _failsize_scripts(hx):
    """the name allocation of the last path element fails (lengths whose name does not fit the node made for it:
    20..23, 84..87, 212..215 and longer): the assignment is refused, nothing changes, everything is released once"""
    out = []
    k = 0
    for ln in (20, 21, 22, 23, 84, 87, 212, 215, 216, 230, 300):
        last = ("n%d_" % ln + "abcdefghijklmnopqrstuvwxyz" * 12)[:ln]
        for tr, pre, path in (("-", [], last), ("r", [], last),
                              ("-", ["g set - %s 2e %s" % (hx("a.b"), hx("1"))], "a.b." + last),
                              ("-", ["g set - %s 2e %s" % (hx("a.b"), hx("1"))], "a." + last),
                              ("r", ["g set r %s 2e %s" % (hx("a"), hx("1"))], "a." + last),
                              ("0", ["g set - %s 2e %s" % (hx("a.b"), hx("1"))], last),
                              ("0", ["g set - %s 2e %s" % (hx("a"), hx("1"))], last)):
            lines = ["g begin", "g view 61 2e"] + pre + ["g failsize %d" % (ln + 1), "g set %s %s 2e %s" % (tr, hx(path), hx("v")),
                     "g has %s %s 2e" % (tr, hx(path)), "g set %s %s 2e %s" % (tr, hx(path), hx("w")),
                     "g get %s %s 2e" % (tr, hx(path)), "g end"]
            out.append(("failsize:%d" % k, lines))
            k += 1
    return out


def scripts(tier, seed, scale=1):
    r2 = gen.rng(id, tier, seed, "mixed")
    r4 = gen.rng(id, tier, seed, "random")
    r5 = gen.rng(id, tier, seed, "binary")
    r6 = gen.rng(id, tier, seed, "refused")
    return (_stream1(tier) + _stream2(tier, r2) + _stream3(tier) + _stream4(tier, r4, scale) + _stream5(tier, r5)
            + _stream6(tier, r6) + _stream7(tier) + _stream8(tier, gen.rng(id, tier, seed, "emptypath")) + _failsize_scripts(hx))


def nontrivial(script, c_lines):
    prev = None
    for op, ln in zip(script, c_lines):
        i = ln.find("| C G[")
        if i < 0:
            i = ln.find("| C X[")
        if i < 0:
            continue
        j = ln.find("]P[", i)
        if j < 0:
            j = ln.find("] | I", i)
        cur = ln[i + 6:j].split(",") if j > i + 6 else []
        if prev is not None and len(prev) >= 2 and op.split()[1:2] in (["del"], ["set"]):
            gone = [p for p in prev if p not in cur]
            if gone:
                return True
        prev = cur
    return False


def tally(chk, script, c_lines):
    d = chk.__dict__.setdefault("distribution", {})
    for op, ln in zip(script, c_lines):
        w = op.split()
        k = w[1] if len(w) > 1 else "?"
        d[k] = d.get(k, 0) + 1
        if ln.startswith("R refused"):
            d["refused"] = d.get("refused", 0) + 1
        elif ln.startswith("R absent"):
            d["absent"] = d.get("absent", 0) + 1


def finding_key(script, res):
    op = (res.get("op") or "").split()
    return "%s:%s%s" % (res["kind"], "x-" if op[:1] == ["x"] else "", op[1] if len(op) > 1 else "?")


# --------------------------------------------------------------------------- second part: the private C++ configuration
class _XX:
    """mpt::config::root (mpt++/config.cpp on the item arrays of mptcore/config/config_item_*.c) through
    harness/drvxx_config.cpp; the object is private, so many scripts share one driver process"""
    id = "C10"
    area = "config"
    driver = "drvxx_config"
    cxx = True
    fixed_lines = 1
    link_extra = ("-fno-sanitize=vptr",)

    @staticmethod
    def corpus(chk):
        return [(n, sc) for n, sc in gen.corpus(id) if sc and sc[0].startswith("x ")]

    @staticmethod
    def _probe(paths):
        return ["x get %s 2e" % hx(p) for p in paths]

    @staticmethod
    def scripts(tier, seed, scale=1):
        out = []
        X = _XX
        # 1. every history of length <= 3 (quick) / 4 (thorough) of set/del over the 6 paths
        ops = []
        for i, p in enumerate(PATHS):
            ops.append("x set %s 2e %s" % (hx(p), hx("v%d" % i)))
            ops.append("x del %s 2e" % hx(p))
        top = 3 if tier == "quick" else 4
        for n in range(1, top + 1):
            for h in itertools.product(range(len(ops)), repeat=n):
                lines = ["x begin"]
                for j, i in enumerate(h):
                    op = ops[i]
                    if op.startswith("x set"):
                        op = op[:op.rindex(" ")] + " " + hx("w%d%d" % (j, i))
                    lines.append(op)
                lines += X._probe(PATHS) + ["x end"]
                out.append(("xex:%d:%s" % (n, "-".join(map(str, h))), lines))
        # 2. slot re-use: an element E with k children on a level of m items (incl. E) is removed, then a name is
        #    assigned on that level (a new one, E again, or an old sibling); k and m independent, level = top or below "p"
        sib = ["s1", "s2", "s3", "s4"]
        kids = ["k1", "k2", "k3", "k4", "k5"]
        for pre in ("", "p."):
            for m in range(1, 5):
                for k in range(0, 6):
                    for epos in range(m):
                        for again in ("n", "E", "s1", "n.k1"):
                            for twice in (0, 1):
                                lines = ["x begin"]
                                level = sib[:m - 1]
                                level.insert(epos, "E")
                                every = []
                                for nm in level:
                                    if nm == "E":
                                        for c in kids[:k]:
                                            lines.append("x set %s 2e %s" % (hx(pre + "E." + c), hx("v" + c)))
                                            every.append(pre + "E." + c)
                                        if k == 0 or (k + m) % 2:
                                            lines.append("x set %s 2e %s" % (hx(pre + "E"), hx("vE")))
                                    else:
                                        lines.append("x set %s 2e %s" % (hx(pre + nm), hx("v" + nm)))
                                        lines.append("x set %s 2e %s" % (hx(pre + nm + ".k1"), hx("w" + nm)))
                                        every.append(pre + nm + ".k1")
                                    every.append(pre + nm)
                                lines.append("x del %s 2e" % hx(pre + "E"))
                                if twice:
                                    # a second removal on the level (first sibling) before anything is assigned
                                    if m > 1:
                                        lines.append("x del %s 2e" % hx(pre + level[0 if level[0] != "E" else 1]))
                                    else:
                                        continue
                                lines += X._probe(every)
                                lines.append("x set %s 2e %s" % (hx(pre + again), hx("new")))
                                probes = every + [pre + "n"] + [pre + "n." + c for c in kids] + [pre + "E." + c for c in kids]
                                lines += X._probe(probes)
                                lines.append("x set %s 2e %s" % (hx(pre + "n2.k2"), hx("new2")))
                                lines += X._probe(probes + [pre + "n2." + c for c in kids])
                                lines.append("x end")
                                out.append(("xslot:%s%d/%d/%d/%s/%d" % (pre, m, k, epos, again, twice), lines))
        # 3. the C++ path object: rebuilding a path element by element
        lines = ["x begin"]
        for n in range(1, 4):
            for t in itertools.product(["", "a", "bc", "def"], repeat=n):
                lines.append("x padd 2e %s" % ",".join(hx(e) for e in t))
        for l1 in (254, 255, 256, 257, 300):
            lines.append("x padd 2e %s,%s" % (hx("x" * l1), hx("ab")))
        out.append(("xpath:build", lines + ["x end"]))
        # 3a. a copy of a path shares the buffer: deleting from the original, then extending the copy
        lines = ["x begin"]
        for n in range(1, 4):
            for t in itertools.product(["a", "bc", "def"], repeat=n):
                for t2 in (["zz"], ["y", "xw"], [""]):
                    lines.append("x pshare 2e %s %s" % (",".join(hx(e) for e in t), ",".join(hx(e) for e in t2)))
        lines.append("x pshare 2e %s,%s %s" % (hx("x" * 300), hx("ab"), hx("q" * 256)))
        out.append(("xpath:share", lines + ["x end"]))
        # 3b. an element that does not fit an identifier: refused, and no prefix element may have appeared
        j = 0
        for pre in ([], ["x set %s 2e %s" % (hx("a.b"), hx("1"))], ["x set %s 2e %s" % (hx("c"), hx("1"))]):
            for ppre, suf in (("", ""), ("c.", ""), ("c.d.", ""), ("a.", ""), ("a.b.", ".z"), ("", ".z")):
                for n in (65535, 65536):
                    e = (ppre + "L" + suf).split(".")
                    names = [".".join(e[:i]) for i in range(1, len(e) + 1) if "L" not in e[:i]]
                    checks = ["x has %s 2e" % hx(q) for q in names]
                    out.append(("xref:%d" % j, ["x begin"] + pre + checks + ["x setl %s %d %s 2e %s" % (hx(ppre), n, hx(suf), hx("v"))]
                                + checks + X._probe(PATHS) + ["x end"]))
                    j += 1
        # 3c. element names around the inline capacity of an item identifier (and of a node identifier), at every depth
        j = 0
        for ln in list(range(6, 26)) + [30, 31, 32, 33, 62, 63, 64, 65]:
            nm = ("n%02d" % ln + "abcdefghijklmnopqrstuvwxyz" * 3)[:ln]
            for pat in ("%s", "a.%s", "%s.b", "a.%s.b", "%s.%s"):
                pth = pat.replace("%s", nm)
                lines = ["x begin", "x set %s 2e %s" % (hx(pth), hx("v1")), "x get %s 2e" % hx(pth), "x has %s 2e" % hx(pth),
                         "x set %s 2e %s" % (hx(pth), hx("v2")), "x get %s 2e" % hx(pth),
                         "x set %s 2e %s" % (hx(pth + ".k"), hx("v3")), "x get %s 2e" % hx(pth + ".k"),
                         "x del %s 2e" % hx(pth), "x get %s 2e" % hx(pth), "x get %s 2e" % hx(pth + ".k"),
                         "x set %s 2e %s" % (hx(pth), hx("v4")), "x get %s 2e" % hx(pth)] + X._probe(PATHS) + ["x end"]
                out.append(("xlen:%d" % j, lines))
                j += 1
        # 4. random histories over a small name pool (deep re-use), incl. long names and values
        r = gen.rng(id, tier, seed, "xx-random")
        names = ["a", "b", "c", "d", "e", ""]
        lens = [1, 2, 254, 255, 256, 300]
        for kk in range((300 if tier == "quick" else 4000) * scale):
            pool = list(names)
            if r.random() < 0.2:
                pool += [chr(0x78) * r.choice(lens)]
            paths = set()
            lines = ["x begin"]
            for _ in range(r.choice([6, 12, 25])):
                depth = r.choice([1, 1, 2, 2, 3])
                p = ".".join(r.choice(pool) for _ in range(depth))
                kind = r.choice(["set", "set", "set", "del", "del", "get"])
                paths.add(p)
                if kind == "set":
                    v = r.choice(["v%d" % r.randrange(50), chr(0x77) * r.choice(lens)])
                    lines.append("x set %s 2e %s" % (hx(p), hx(v)))
                elif kind == "del":
                    lines.append("x del %s 2e" % hx(p))
                else:
                    lines.append("x get %s 2e" % hx(p))
                if r.random() < 0.03:
                    lines.append("x clear")
            lines += X._probe(sorted(paths)) + ["x end"]
            out.append(("xrnd:%d" % kk, lines))
        return out

    nontrivial = staticmethod(lambda script, c_lines: nontrivial(script, c_lines))
    tally = staticmethod(lambda chk, script, c_lines: tally(chk, script, c_lines))
    finding_key = staticmethod(lambda script, res: finding_key(script, res))


extra_parts = [_XX]
