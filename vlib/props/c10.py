"""C10 — configuration store behaves as a path -> value map."""
import itertools

from .. import gen

id = "C10"
area = "config"
driver = "drv_config"
cxx = False
fixed_lines = 1
per_process = 1    # the global configuration tree is process-global: a fresh driver process per script
rule = ("scripts = 'g begin', ops, 'g end', one driver process per script; stream 1 (exhaustive small scope): every "
        "history of length <=3 (quick) / <=4 (thorough) of set/del over the 6 paths a, a.b, a.b.c, a.c, b, a..b "
        "(shared prefixes, prefix-of-another, empty element) on the global tree, each followed by a get of all 6 paths; "
        "stream 2: the same histories with mixed front ends (NULL config, sub-tree views a / a.b, private list through "
        "mpt_node_assign/mpt_node_query, separators '.' and '/'); stream 3: path text splitting (mpt_path_set + "
        "mpt_path_next) for all texts over {a,b,sep} up to length 5 with and without an assign character and with every explicit length, "
        "mpt_path_last after 0..3 consumed elements, path building with mpt_path_addchar/valid/add/del in separator and "
        "binary mode; stream 4: random histories with element and value lengths from {0,1,2,254,255,256,300} and "
        "repeated elements; non-trivial = a history in which a removal or an overwrite changed the stored pairs while "
        "at least two pairs were stored (seen in the code's output), counted per distinct script")
assumptions = [
    "path texts and values are C strings (no zero byte); the assign character is 0 for set/get/del as in mpt_config_set/get",
    "the node list operations used by the configuration tree behave as C14 shows (first match, append, unlink+destroy)",
    "malloc never fails in the harness runs",
    "the C++ wrappers (mpt++/config.cpp) are not driven by this check",
]
trusted = ["hand-written model MptModel/Impl/Config.lean tied to mptcore/config/*.c by harness/drv_config.c"]


def corpus(chk):
    return gen.corpus(id)


def hx(s):
    if isinstance(s, str):
        s = s.encode()
    return s.hex() if s else "-"


PATHS = ["a", "a.b", "a.b.c", "a.c", "b", "a..b"]


def _probe(tree="-", sep="."):
    return ["g get %s %s %s" % (tree, hx(p.replace(".", sep)), hx(sep)) for p in PATHS]


def _stream1(tier):
    out = []
    ops = []
    for i, p in enumerate(PATHS):
        ops.append("g set - %s 2e %s" % (hx(p), hx("v%d" % i)))
        ops.append("g del - %s 2e" % hx(p))
    top = 3 if tier == "quick" else 4
    for n in range(1, top + 1):
        for k, h in enumerate(itertools.product(range(len(ops)), repeat=n)):
            lines = ["g begin"]
            for j, i in enumerate(h):
                op = ops[i]
                if op.startswith("g set"):
                    op = op[:op.rindex(" ")] + " " + hx("w%d%d" % (j, i))
                lines.append(op)
            lines += _probe() + ["g end"]
            out.append(("ex:%d:%s" % (n, "-".join(map(str, h))), lines))
    return out


def _stream2(tier, r):
    out = []
    fronts = ["-", "-", "0", "1", "r"]
    n = 400 if tier == "quick" else 4000
    for k in range(n):
        lines = ["g begin", "g view 61 2e", "g view %s 2f" % hx("a/b")]
        for _ in range(r.choice([2, 3, 5, 8])):
            tr = r.choice(fronts)
            sep = r.choice([".", ".", "/"])
            p = r.choice(PATHS + ["c", "b.a", "", "a.", ".a"])
            if tr in ("0", "1"):
                p = r.choice(["b", "c", "b.c", "c.d", "", "x"])
            ptxt = hx(p.replace(".", sep))
            kind = r.choice(["set", "set", "set", "del", "get"])
            if tr == "r" and kind == "del":
                kind = "set"
            if kind == "set":
                lines.append("g set %s %s %s %s" % (tr, ptxt, hx(sep), hx("x%d" % r.randrange(100))))
            elif kind == "del":
                lines.append("g del %s %s %s" % (tr, ptxt, hx(sep)))
            else:
                lines.append("g get %s %s %s" % (tr, ptxt, hx(sep)))
        lines += _probe() + _probe("r") + ["g get 0 %s 2e" % hx(p) for p in ("b", "b.c", "c")] + ["g get 1 63 2e", "g end"]
        out.append(("mix:%d" % k, lines))
    return out


def _stream3(tier):
    out = []
    lines = ["g begin"]
    alpha = "ab."
    top = 5 if tier == "quick" else 6
    for n in range(0, top + 1):
        for t in itertools.product(alpha, repeat=n):
            s = "".join(t)
            lines.append("g split %s 2e -" % hx(s))
            if n <= 4:
                for skip in range(0, 4):
                    lines.append("g last %s 2e %d" % (hx(s), skip))
                for take in range(0, n + 1):
                    lines.append("g splitn %s 2e %d" % (hx(s), take))
            if len(lines) > 400:
                out.append(("path:%d" % len(out), lines + ["g end"]))
                lines = ["g begin"]
    # assign character inside the text, other separators
    for n in range(0, 5):
        for t in itertools.product("a.=", repeat=n):
            s = "".join(t)
            lines.append("g split %s 2e 3d" % hx(s))
            lines.append("g split %s 3d 2e" % hx(s))
    out.append(("path:assign", lines + ["g end"]))
    lines = ["g begin"]
    # element lengths around the 8 bit field
    for l1 in (0, 1, 254, 255, 256, 257, 300, 511, 512, 513):
        for l2 in (0, 1, 255, 256, 257):
            s = "x" * l1 + "." + "y" * l2
            lines.append("g split %s 2e -" % hx(s))
            for skip in (0, 1):
                lines.append("g last %s 2e %d" % (hx(s), skip))
            s3 = s + ".z"
            lines.append("g last %s 2e 1" % hx(s3))
    out.append(("path:long", lines + ["g end"]))
    lines = ["g begin"]
    for mode in "sb":
        for n in range(1, 4):
            for t in itertools.product(["", "a", "bc", "def"], repeat=n):
                lines.append("g build %s 2e %s" % (mode, ",".join(hx(e) for e in t)))
        for l1 in (254, 255, 256, 257, 300):
            lines.append("g build %s 2e %s,%s" % (mode, hx("x" * l1), hx("ab")))
            lines.append("g build %s 2e %s,%s" % (mode, hx("ab"), hx("x" * l1)))
        lines.append("g build %s 2e %s" % (mode, hx("a.b")))
    out.append(("path:build", lines + ["g end"]))
    return out


def _stream4(tier, r, scale):
    out = []
    n = (150 if tier == "quick" else 2000) * scale
    lens = [0, 1, 1, 2, 2, 254, 255, 256, 300]
    for k in range(n):
        names = []
        for _ in range(4):
            L = r.choice(lens)
            names.append(chr(r.choice([0x61, 0x62, 0x7a])) * L)
        paths = []
        for _ in range(5):
            depth = r.choice([1, 2, 2, 3])
            paths.append(".".join(r.choice(names) for _ in range(depth)))
        lines = ["g begin"]
        for _ in range(r.choice([3, 6, 10])):
            p = r.choice(paths)
            kind = r.choice(["set", "set", "set", "del", "get"])
            if kind == "set":
                v = chr(r.choice([0x76, 0x77])) * r.choice(lens)
                lines.append("g set %s %s 2e %s" % (r.choice(["-", "-", "r"]), hx(p), hx(v)))
            elif kind == "del":
                lines.append("g del - %s 2e" % hx(p))
            else:
                lines.append("g get %s %s 2e" % (r.choice(["-", "r"]), hx(p)))
        for p in paths:
            lines.append("g get - %s 2e" % hx(p))
            lines.append("g get r %s 2e" % hx(p))
        lines.append("g end")
        out.append(("rnd:%d" % k, lines))
    return out


def scripts(tier, seed, scale=1):
    r2 = gen.rng(id, tier, seed, "mixed")
    r4 = gen.rng(id, tier, seed, "random")
    return _stream1(tier) + _stream2(tier, r2) + _stream3(tier) + _stream4(tier, r4, scale)


def nontrivial(script, c_lines):
    prev = None
    for op, ln in zip(script, c_lines):
        i = ln.find("| C G[")
        if i < 0:
            continue
        j = ln.find("]P[", i)
        cur = ln[i + 6:j].split(",") if j > i + 6 else []
        if prev is not None and len(prev) >= 2 and (op.startswith("g del") or op.startswith("g set")):
            gone = [p for p in prev if p not in cur]
            if gone:
                return True
        prev = cur
    return False


def tally(chk, script, c_lines):
    d = chk.__dict__.setdefault("distribution", {})
    for op, ln in zip(script, c_lines):
        w = op.split()
        k = w[1] if len(w) > 1 else "?"
        d[k] = d.get(k, 0) + 1
        if ln.startswith("R refused"):
            d["refused"] = d.get("refused", 0) + 1
        elif ln.startswith("R absent"):
            d["absent"] = d.get("absent", 0) + 1


def finding_key(script, res):
    op = (res.get("op") or "").split()
    return "%s:%s" % (res["kind"], op[1] if len(op) > 1 else "?")
