"""C09 — configuration text is read back faithfully."""
import subprocess

from .. import build, gen, run
from .c08 import stat_all

id = "C09"
area = "parse"
driver = "drv_parse"
cxx = False
fixed_lines = 1
# allocation requests of the library go through counting wrappers of the driver (op `p oom`)
link_extra = ["-Wl,--wrap=malloc", "-Wl,--wrap=calloc", "-Wl,--wrap=realloc"]
rule = ("scripts = 'p fmt <description of the style> <sect flags> <opt flags>' then groups of 'p root .', 'p render <style> "
        "<decor> <forest> <text>' (text = output of the Lean reference writer `Render.render`, produced by the model "
        "executable and re-checked by it on every run), 'p node' (real mpt_parse_node on that text; the spec "
        "alternative is exactly the normalised forest when `Render.forestFits` holds for the flag words), 'p stat', closed "
        "by 'p end'; stream 1 enumerates EVERY ordered forest shape with <= 5 nodes (thorough: 6) x 5 name patterns "
        "(distinct / all equal / alternating / digits and dashes / quotes, backslash, punctuation, control and high "
        "bytes) x 5 value patterns x the 4 styles (brace and {x}: all shapes; sep, bar: options, then sections, empty "
        "sections included) x 7 decorations (4: comment glued to section names / braces; 5: CR LF line ends, form feed / "
        "vertical tab blanks, empty sections in section syntax, last line without line feed; 6: decorated end lines of "
        "empty sections, unterminated last comment); stream 2 = random forests (depth <= 5, fan-out <= 5, names up to "
        "300 bytes over every admissible byte, values of 1..40 and 249..257 bytes, values that need quoting, embedded "
        "quotes/backslashes/line feeds/high bytes); stream 2b = values of 65534..65537 bytes, plain and quoted, in every "
        "tier; stream 3 = names with the path separator '.' (known finding dot-in-name); stream 4 = 8 format descriptions "
        "that name their escape characters x values containing the other quote characters ('p expect'); stream 5 "
        "(layouts) = texts WRITTEN BY THIS MODULE from the rules of the file format, expectation by 'p expect': 11 format "
        "descriptions (other delimiters, assignment and comment characters), single- and double-quoted and plain "
        "values, CR LF, no final line feed, text behind the last element, empty sections, blanks inside '[ s ]' / "
        "'| s' / '{ s', name and '{' on different lines, 'a{', first option on the header line, names with inner blanks "
        "; stream 6 = 9 pairs of name restriction words x the 4 styles with names that mostly fit them; "
        "non-trivial = the real code returned a tree with at least one section that has children or one value, counted "
        "per distinct script")
assumptions = [
    "theorems: forests are restricted to `Render.admissible` (names without white space, '#', '=', '.', '{}[]|'; values "
    "without zero byte; flat styles: options first, one level of sections) and to names the flag words permit "
    "(`Render.forestFits`); every element line ends with a line feed (a last ELEMENT line without line feed, blanks "
    "inside a name or header, several elements on one line, single quotes and other delimiter sets are exercised by "
    "the layouts stream only)",
    "theorems: format descriptions default (brace), '[ ] = #' (sep), '|x| = #' (bar), '{x} = #' (enc)",
    "a section header of the 'x' formats ('|s', '{s') as very last line WITHOUT line feed is refused (MissingData) by the "
    "real code and the model alike; a quote that opens in the middle of a value is kept (a='p'\"q\" reads p\"q): both "
    "outside what the writer produces, the layouts stream avoids them; a section name of the 'x' formats ends at white "
    "space (no blanks inside)",
    "the value of a node is observed through its character vector conversion (terminating zero dropped); buffer-backed "
    "(long) values offer no 's' string conversion",
    "memory allocation never fails in the harness runs",
]
trusted = ["hand-written model MptModel/Impl/Parse.lean + Impl/ParseConfig.lean tied to the real parser by "
           "harness/drv_parse.c; reference writer MptModel/Spec/Render.lean (its output is what the real parser "
           "is fed with)"]

NDECOR = 7   # decorations `Render.decorOf 0..6`
STYLES = {"brace": None, "sep": "[ ] = #", "bar": "|x| = #", "enc": "{x} = #"}


def corpus(chk):
    return stat_all(gen.corpus(id))


def hx(s):
    if isinstance(s, str):
        s = s.encode("latin-1")
    return s.hex() if s else "-"


def fmt_line(style, flags=(255, 255)):
    d = STYLES[style]
    return "p fmt %s %d %d" % ((("null" if d is None else hx(d)),) + tuple(flags))


def forest_text(f):
    """f = list of (name bytes, value bytes or None, children)"""
    if not f:
        return "."
    out = []
    for n, v, cs in f:
        t = hx(n)
        if v is not None:
            t += "=" + hx(v)
        if cs:
            t += "(" + forest_text(cs) + ")"
        out.append(t)
    return ",".join(out)


def render_all(reqs):
    """reqs: list of (style, decor, forest text) -> list of (hex text or None, admissible)"""
    exe = build.model_exe(area)
    inp = "".join("p render %s %d %s ?\n" % r for r in reqs)
    p = subprocess.run([exe], input=inp.encode(), stdout=subprocess.PIPE, stderr=subprocess.PIPE, env=run.ENV)
    lines = p.stdout.decode().split("\n")
    out = []
    for i in range(len(reqs)):
        ln = lines[i] if i < len(lines) else ""
        w = ln.split()
        if len(w) == 4 and w[0] == "R" and w[1] == "render":
            out.append((w[2], w[3] == "admissible=yes"))
        else:
            out.append((None, False))
    return out


def shapes(n):
    """all ordered forests with n nodes, as nested lists"""
    if n == 0:
        return [[]]
    out = []
    for k in range(0, n):          # k nodes below the first tree's root
        for kids in shapes(k):
            for rest in shapes(n - 1 - k):
                out.append([kids] + rest)
    return out


def label(shape, names, values, pos):
    out = []
    for kids in shape:
        i = pos[0]
        pos[0] += 1
        if kids:
            out.append((names(i), None, label(kids, names, values, pos)))
        else:
            out.append((names(i), values(i), None))
    return out


NAMEPATS = [lambda i: b"abcdefgh"[i:i + 1], lambda i: b"a", lambda i: (b"k1", b"Z_")[i % 2],
            lambda i: (b"9", b"-", b"a-b_c")[i % 3],
            lambda i: (b"\"q'", b"\\", b"a+b", b"\x80\xff", b"\x01~", b"$(x)", b"<:>")[i % 7]]
VALPATS = [lambda i: (b"1", b"two words", b"x")[i % 3],
           lambda i: (None, b"", b"\"q\" # \\\" '", b"#h")[i % 4],
           lambda i: (b" lead", b"trail ", b"a\nb", b"\\\"", b"\x80\xff=")[i % 5],
           lambda i: (b"{", b"}", b"[x]", b"|", b"a=b")[i % 5],
           lambda i: (b" x\\", b"\"\\\\", b"#\\\"\\", b"\\", b"a\\ ")[i % 5]]


def assemble(name, style, items, per=10, flags=(255, 255)):
    """items: list of (decor, forest text, hex)"""
    out = []
    for i in range(0, len(items), per):
        lines = [fmt_line(style, flags)]
        for decor, ft, text in items[i:i + per]:
            lines += ["p root .", "p render %s %d %s %s" % (style, decor, ft, text), "p node"]
        lines.append("p end")
        out.append(("%s:%s:%d" % (name, style, i), lines))
    return out


def exhaustive(tier):
    forests = []
    top = 5 if tier == "quick" else 6
    for n in range(0, top + 1):
        for sh in shapes(n):
            for np_ in NAMEPATS:
                for vp in VALPATS:
                    forests.append(forest_text(label(sh, np_, vp, [0])))
    forests = sorted(set(forests))
    out = []
    for style in STYLES:
        reqs = [(style, d, f) for f in forests for d in range(NDECOR)]
        res = render_all(reqs)
        items = [(d, f, h) for (s, d, f), (h, adm) in zip(reqs, res) if adm and h]
        out += assemble("ex", style, items, 20)
    return out


def _rand_value(r, tier):
    k = r.random()
    if k < 0.12:
        return None
    if k < 0.2:
        return b""
    if k < 0.3:
        L = r.choice([249, 250, 253, 254, 255, 256, 257, 300])
    elif k < 0.34 and tier != "quick":
        L = r.choice([65534, 65535, 65536, 65537])
    else:
        L = r.choice([1, 1, 2, 3, 5, 8, 13, 40])
    pool = r.choice([b"abc xyz019", b"ab \"'\\#=", bytes(range(1, 256)), b"a b\n\t", b"x", b"\\\" "])
    v = bytes(r.choice(pool) for _ in range(L))
    if r.random() < 0.15:
        v += b"\\" * r.choice([1, 2, 3])
    return v


NAMEBYTES = bytes(c for c in range(1, 256) if c not in b" \t\n\r\x0b\x0c#=.{}[]|")


def _rand_name(r):
    L = r.choice([1, 1, 2, 3, 7, 30, 255, 256, 300]) if r.random() < 0.25 else r.choice([1, 2, 3, 5])
    pool = r.choice([b"abcXYZ019_-", b"abcXYZ019_-", NAMEBYTES, b"\"'\\+*~^$&@!%/<>():;,?`"])
    return bytes(r.choice(pool) for _ in range(L))


# name restriction words (sections, options) and name alphabets that fit them (mostly)
FLAGSETS = [((0x7, 0x7), b"abXY01_-"), ((0x2, 0x2), b"abcXYZ012"), ((0x0, 0x0), b"abcXYZ"), ((0x2f, 0x2f), NAMEBYTES),
            ((0x24, 0x3), b"ab+\x80\x01"), ((0x3, 0x24), b"ab9+\xff"), ((0x10, 0x13), b"ab12"), ((0x3f, 0x0f), NAMEBYTES),
            ((0x4, 0x6), b"ab-_1")]


def flagsets(tier, seed, scale):
    """forests under restricted name flags: the model driver expects the forest when `Render.forestFits` holds and
    allows 'error, target unchanged' otherwise"""
    r = gen.rng(id, tier, seed, "flags")
    out = []
    n = (40 if tier == "quick" else 400) * scale
    for flags, pool in FLAGSETS:
        for style in STYLES:
            reqs = []
            for _ in range(n // 4 + 1):
                f = _rand_forest(r, "quick", 0, style in ("sep", "bar"))

                def name(word, old):
                    if r.random() < 0.07:
                        return old
                    n_ = bytes(r.choice(pool) for _ in range(r.choice([1, 2, 3, 5])))
                    if n_[:1].isdigit() and not word & 1 and r.random() < 0.9:
                        n_ = b"a" + n_[1:]
                    return n_

                def rename(f):
                    return [(name(flags[0] if cs else flags[1] if v else flags[0] & flags[1], n_),
                             (v if v is None or len(v) < 60 else v[:60]) if cs is None else None,
                             rename(cs) if cs else cs) for n_, v, cs in f]
                reqs.append((style, r.randrange(NDECOR), forest_text(rename(f))))
            res = render_all(reqs)
            items = [(d, f, h) for (s, d, f), (h, adm) in zip(reqs, res) if adm and h]
            out += assemble("flg:%x:%x" % flags, style, items, 5, flags)
    return out



def _rand_forest(r, tier, depth, flat):
    out = []
    for _ in range(r.choice([0, 1, 2, 3, 5]) if depth else r.choice([1, 2, 3, 5])):
        if depth < (1 if flat else 5) and r.random() < 0.4:
            out.append((_rand_name(r), None, _rand_forest(r, tier, depth + 1, flat)))
        else:
            out.append((_rand_name(r), _rand_value(r, tier), None))
    if flat and depth == 0:
        out.sort(key=lambda t: 1 if t[2] else 0)
    return out


def random_forests(tier, seed, scale):
    r = gen.rng(id, tier, seed, "random")
    n = (1500 if tier == "quick" else 6000) * scale
    out = []
    for style in STYLES:
        reqs = []
        for _ in range(n // 3 + 1):
            f = _rand_forest(r, tier, 0, style in ("sep", "bar"))
            reqs.append((style, r.randrange(NDECOR), forest_text(f)))
        res = render_all(reqs)
        items = [(d, f, h) for (s, d, f), (h, adm) in zip(reqs, res) if adm and h]
        out += assemble("rnd", style, items, 4)
    return out


def bigvalues(tier):
    """values of 65534..65537 bytes (16-bit limits), plain and quoted, in every tier; one script per value"""
    out = []
    for L in (65534, 65535, 65536, 65537):
        for kind, v in (("plain", b"v" * L), ("quoted", b" " + b"q\"" * ((L - 1) // 2) + b"x" * ((L - 1) % 2))):
            for style in (("brace", "sep") if kind == "plain" else ("brace", "enc", "bar")):
                f = [(b"k", v, None)] if style != "sep" else [(b"o", b"1", None), (b"s", None, [(b"k", v, None)])]
                reqs = [(style, 1 if kind == "plain" else 3, forest_text(f))]
                (h, adm), = render_all(reqs)
                if h and adm:
                    out += assemble("big:%d:%s" % (L, kind), style, [(reqs[0][1], reqs[0][2], h)], 1)
    return out


def valsweep(tier):
    """value length swept over EVERY length 240..720 (capacities of the text buffer of long values: 128*k - 64) and over
    the capacities up to 65600 with their neighbours"""
    lens = list(range(240, 721))
    for cap in ([832, 960, 1088, 2112, 4160, 8256, 16448] + [32832, 65600]):
        lens += [cap - 1, cap, cap + 1]
    if tier != "quick":
        lens += list(range(721, 2200)) + [128 * k - 64 + d for k in range(18, 514, 7) for d in (-1, 0, 1)]
    reqs = [("brace" if i % 3 else ("sep", "bar", "enc")[(i // 3) % 3], 0 if i % 2 else 1,
             forest_text([(b"k", bytes([97 + i % 26]) * L, None)])) for i, L in enumerate(lens)]
    out = []
    for style in STYLES:
        sub = [q for q in reqs if q[0] == style]
        res = render_all(sub)
        items = [(d, f, h) for (s_, d, f), (h, adm) in zip(sub, res) if adm and h]
        out += assemble("vlen", style, items, 12)
    return out


def pathfill(tier):
    """sections whose accumulated path fills the path buffer exactly (capacities 64, 192, 320): header written `name{`,
    inside an empty-named section, an empty-named option, a named one; one and two levels; expectation by 'p expect'"""
    out = []
    lines = [fmt_line("brace")]
    caps = (64, 192, 320) if tier == "quick" else (64, 192, 320, 448, 576, 1088)
    for cap in caps:
        for n in range(cap - 4, cap + 3):
            for two in (False, True):
                if two and n < 4:
                    continue
                names = [b"n" * n] if not two else [b"a", b"m" * (n - 2)]
                for inner_t, inner_f in ((b"{\nx=1\n}\n", [(b"", None, [(b"x", b"1", None)])]),
                                         (b"{\n{\ny=2\n}\n}\n", [(b"", None, [(b"", None, [(b"y", b"2", None)])])]),
                                         (b"b{\nx=1\n}\n", [(b"b", None, [(b"x", b"1", None)])]),
                                         (b"=1\nc=2\n", [(b"", b"1", None), (b"c", b"2", None)])):
                    text = b"".join(nm + b"{\n" for nm in names) + inner_t + b"}\n" * len(names)
                    f = inner_f
                    for nm in reversed(names):
                        f = [(nm, None, f)]
                    lines += ["p root .", "p input " + hx(text), "p expect " + forest_text(f), "p node"]
        lines.append("p end")
        out.append(("fill:%d" % cap, lines))
        lines = [fmt_line("brace")]
    return out


DATAONLY = [
    # values without name (data-only elements) between options and sections: text written here, forest by 'p expect'
    ("{*} =;!#", "a { x; y=1; z; } b { } c = 2;", "61(-=78,79=31,-=7a),62,63=32"),
    ("{*} =;!#", "lone;\n# c\ns {\n one; two = 2; ! c\n}\n", "-=6c6f6e65,73(-=6f6e65,74776f=32)"),
    ("[ ] =;#", "k=1;\n[s]\nx;\ny=1; # c\n[t]\nz;\n", "6b=31,73(-=78,79=31),74(-=7a)"),
    ("|x| =;#", "k=1;\n|s\nx;\ny=1;\n", "6b=31,73(-=78,79=31)"),
    ("{x} =;#", "{s\nx;\ny=1;\n}\nz;", "73(-=78,79=31),-=7a"),
    ("{*} =;!#", "a {\n x y ;\n}\n", "61(-=782079)"),
]


def dataonly(tier):
    out = []
    for i, (desc, text, forest) in enumerate(DATAONLY):
        out.append(("data:%d" % i, ["p fmt %s 255 255" % hx(desc), "p root .", "p input " + hx(text), "p expect " + forest,
                                    "p node", "p end"]))
    return out


def bignames(tier):
    """names at the 16-bit identifier limit: 65534 bytes is the longest name a node can carry (read back), 65535 and
    65536 bytes have to be refused (or read back) — never stored under another name; option and section, brace style"""
    out = []
    for L in (65534, 65535, 65536):
        nm = b"n" * L
        for kind, text, forest in (("opt", nm + b" = 1\n", [(nm, b"1", None)]),
                                   ("sect", b"a=1\n" + nm + b" {\nk=v\n}\n", [(b"a", b"1", None), (nm, None, [(b"k", b"v", None)])])):
            lines = [fmt_line("brace"), "p root .", "p input " + hx(text)]
            if L < 65535:
                lines.append("p expect " + forest_text(forest))
            lines += ["p node", "p end"]
            out.append(("bigname:%d:%s" % (L, kind), lines))
    return out


def dotted(tier):
    """names with the path separator '.' (permitted by the name flags, outside `Render.admissible`): the
    parser refuses them, see the known finding `dot-in-name`"""
    forests = [
        [(b"a.b", b"1", None)],
        [(b".", b"x y", None), (b"c", b"2", None)],
        [(b"c", b"2", None), (b"k.", None, None)],
        [(b"s.t", None, [(b"k", b"v", None)])],
        [(b"s", None, [(b"k.v", b"v", None)])],
    ]
    out = []
    for style in STYLES:
        reqs = [(style, d, forest_text(f)) for f in forests for d in (0, 2)]
        res = render_all(reqs)
        for (st, d, ft), (h, adm) in zip(reqs, res):
            if not h or adm:
                continue
            lines = [fmt_line(style), "p root .", "p render %s %d %s %s" % (style, d, ft, h), "p node", "p end"]
            out.append(("dot:%s:%d:%s" % (style, d, ft), lines))
    return out


# format descriptions that name their escape (quote) characters themselves: only the named ones quote
ONEQUOTE = [
    # (description, layout, named escape characters)
    ("{*} = !# `", "brace", "`"),
    ("{*} =;!# `", "semi", "`"),
    ("[ ] = # `", "sep", "`"),
    ("|x| = # `", "bar", "`"),
    ("{*} = # \"", "brace", "\""),
    ("{*} = # '", "brace", "'"),
    ("{*} = # `'", "brace", "`'"),
    ("{*} = # \"'`", "brace", "\"'`"),
]
QVALUES = ["it's here", "say \"hi\"", "a`b", "'", "\"", "x'y\"z", "don't 'quote'", "plain"]


def _qwrite(layout, items):
    """items: [(name, value)] top level options, then one section `s` with the same options"""
    eol = ";\n" if layout == "semi" else "\n"
    opts = "".join("%s = %s%s" % (n, v, eol) for n, v in items)
    if layout in ("brace", "semi"):
        return opts + "s {\n" + opts + "}\n"
    if layout == "sep":
        return opts + "[s]\n" + opts
    return opts + "|s\n" + opts


def onequote(tier, seed):
    """the reference text is written here (plain `name = value` lines): a value that contains none of the NAMED
    escape characters, no `#`, `;` and no blank at its ends is read back verbatim"""
    out = []
    r = gen.rng(id, tier, seed, "onequote")
    for desc, layout, esc in ONEQUOTE:
        vals = [v for v in QVALUES if not any(c in v for c in esc)]
        for k in range(4 if tier == "quick" else 16):
            pick = [r.choice(vals) for _ in range(r.choice([1, 2, 3]))] if k else vals
            items = [("k%d" % i, v) for i, v in enumerate(pick)]
            text = _qwrite(layout, items)
            leaves = [(n.encode(), v.encode("latin-1"), None) for n, v in items]
            forest = leaves + [(b"s", None, leaves)]
            lines = ["p fmt %s 255 255" % hx(desc), "p root .", "p input " + hx(text),
                     "p expect " + forest_text(forest), "p node", "p end"]
            out.append(("quote:%s:%d" % (hx(desc), k), lines))
    return out



# ---------------------------------------------------------------------------------------------------------
# layouts the reference writer of the model does not produce: the text is written HERE, from the rules of the
# file format, and the forest it has to give is handed to the model driver with `p expect`
LAYFMT = [
    # (description or None, family, sstart, send, assign, comment characters)
    (None, "brace", "{", "}", "=", "#"),
    ("(*) : !%", "brace", "(", ")", ":", "!%"),
    ("<*> ~ ;", "brace", "<", ">", "~", ";"),
    ("[ ] = #", "sep", "[", "]", "=", "#"),
    ("( ) : !", "sep", "(", ")", ":", "!"),
    ("|x| = #", "bar", "|", "", "=", "#"),
    ("/x/ : !", "bar", "/", "", ":", "!"),
    ("{x} = #", "enc", "{", "}", "=", "#"),
    ("(x) : !", "enc", "(", ")", ":", "!"),
    ("._. = #", "opt", ".", ".", "=", "#"),      # option list (mpt_parse_option alone)
    ("/_/ : %", "opt", "/", "/", ":", "%"),
]


def _lay_name(r, F, inner_blank):
    bad = set(b" \t\r\n\x0b\x0c.\x00\"'" + (F[2] + F[3] + F[4] + F[5]).encode())
    pool = [c for c in b"abcXYZ019_-+*&$@~^,;:!%/<>(){}[]|=#\\\x01\x7f\x80\xe9\xff" if c not in bad]
    n = bytes(r.choice(pool) for _ in range(r.choice([1, 1, 2, 3, 6])))
    if inner_blank and r.random() < 0.15:
        n = n + r.choice([b" ", b"  ", b"\t"]) + bytes([r.choice(pool)])
    return n


def _lay_value(r, F):
    k = r.random()
    if k < 0.15:
        return None
    if k < 0.22:
        return b""
    L = r.choice([1, 1, 2, 3, 5, 8, 20])
    pool = r.choice([b"abc xyz019", b"ab \"'\\" + F[5].encode() + F[4].encode(), bytes(range(1, 256)), b"a b\t", b"x",
                     b"\\\"' ", (F[2] + F[3] + "[]{}|").encode()])
    return bytes(r.choice(pool) for _ in range(L))


def _q(v, q):
    body = v.rstrip(b"\\")
    tail = v[len(body):]
    return q + body.replace(q, b"\\" + q) + q + tail


def _lay_valtext(r, v, F):
    """one of the spellings of a value"""
    com = F[5].encode()
    plain_ok = (v and not any(c in v for c in b"\x00\n\"'" + com) and v[:1] not in b" \t\r\x0b\x0c\n"
                and v[-1:] not in b" \t\r\x0b\x0c\n")
    k = r.random()
    if plain_ok and k < 0.4:
        return v
    if k < 0.6:
        return _q(v, b"'")
    return _q(v, b"\"")


def _lay_ws(r, opt=True):
    return r.choice([b"", b"", b" ", b"\t", b"  ", b" \t", b"\x0c", b"\x0b "] if opt else [b" ", b"\t", b"  "])


def _lay_trail(r, F, need_blank):
    """behind an element on its line: blanks, maybe a comment"""
    k = r.random()
    if k < 0.5:
        return b""
    if k < 0.7:
        return _lay_ws(r, False)
    c = F[5][r.randrange(len(F[5]))].encode()
    return (_lay_ws(r, False) if need_blank else _lay_ws(r)) + c + r.choice([b"", b" note", b"x=1 {", b"'\""])


def _lay_between(r, F, eol):
    """whole lines between elements"""
    out = b""
    while r.random() < 0.25:
        k = r.random()
        if k < 0.4:
            out += _lay_ws(r) + eol
        else:
            c = F[5][r.randrange(len(F[5]))].encode()
            out += _lay_ws(r) + c + r.choice([b"", b" text", b" a=1", b" }"]) + eol
    return out


def _lay_option(r, F, n, v, eol):
    line = _lay_ws(r) + n + _lay_ws(r) + F[4].encode() + _lay_ws(r)
    if v:
        line += _lay_valtext(r, v, F)
    return line + _lay_trail(r, F, True) + eol


def _lay_nested(r, F, forest, eol, depth=0):
    """brace / enc family; returns list of (text, kind) pieces"""
    fam, so, sc = F[1], F[2].encode(), F[3].encode()
    out = []
    for n, v, cs in forest:
        out.append(_lay_between(r, F, eol))
        blank_in = any(c in n for c in b" \t")
        # (a section name of the `x` formats ends at white space: such a name can only be an option name there)
        if cs is None and not (v is None and r.random() < 0.5 and not (fam == "enc" and blank_in)):
            out.append(_lay_option(r, F, n, v, eol))
            continue
        kids = cs or []
        # section start
        if fam == "brace":
            k = r.random()
            if k < 0.6:
                head = _lay_ws(r) + n + _lay_ws(r) + so
            elif k < 0.8:
                head = _lay_ws(r) + n + so
            else:
                head = _lay_ws(r) + n + _lay_ws(r) + eol + _lay_between(r, F, eol) + _lay_ws(r) + so
            nameend = b""
        else:
            head = _lay_ws(r) + so + _lay_ws(r) + n
            nameend = b" "
        first_inline = kids and kids[0][2] is None and kids[0][1] is not None and r.random() < 0.2
        if first_inline:
            fn, fv, _ = kids[0]
            out.append(head + (nameend or _lay_ws(r)) + fn + _lay_ws(r) + F[4].encode() + _lay_ws(r)
                       + (_lay_valtext(r, fv, F) if fv else b"") + _lay_trail(r, F, True) + eol)
            kids = kids[1:]
        else:
            out.append(head + _lay_trail(r, F, False) + eol)
        out += _lay_nested(r, F, kids, eol, depth + 1)
        out.append(_lay_between(r, F, eol))
        out.append(_lay_ws(r) + sc + _lay_trail(r, F, False) + eol)
    return out


def _lay_flat(r, F, forest, eol):
    fam, so, sc = F[1], F[2].encode(), F[3].encode()
    out = []
    for n, v, cs in forest:
        out.append(_lay_between(r, F, eol))
        if cs is None:
            out.append(_lay_option(r, F, n, v, eol))
            continue
        if fam == "sep":
            head = _lay_ws(r) + so + _lay_ws(r) + n + _lay_ws(r) + sc
        else:
            head = _lay_ws(r) + so + _lay_ws(r) + n
        out.append(head + _lay_trail(r, F, False) + eol)
        for cn, cv, _ in cs:
            out.append(_lay_between(r, F, eol))
            out.append(_lay_option(r, F, cn, cv, eol))
    return out


def _lay_forest(r, F, depth=0):
    fam = F[1]
    flat = fam in ("sep", "bar", "opt")
    out = []
    for _ in range(r.choice([1, 2, 3, 4]) if depth == 0 else r.choice([0, 0, 1, 2, 3])):
        if fam != "opt" and (depth < (1 if flat else 3)) and r.random() < 0.45:
            out.append((_lay_name(r, F, False), None, _lay_forest(r, F, depth + 1)))
        else:
            out.append((_lay_name(r, F, True), _lay_value(r, F), None))
    if flat and depth == 0:
        out.sort(key=lambda t: 0 if t[2] is None else 1)
    return out


def _lay_norm(forest):
    return [(n, (v or None) if cs is None else None, _lay_norm(cs) if cs else None) for n, v, cs in forest]


def layouts(tier, seed, scale):
    r = gen.rng(id, tier, seed, "layouts")
    out = []
    n = (420 if tier == "quick" else 4000) * scale
    for k in range(n):
        F = LAYFMT[k % len(LAYFMT)]
        eol = b"\r\n" if r.random() < 0.25 else b"\n"
        forest = _lay_forest(r, F)
        pieces = (_lay_flat if F[1] in ("sep", "bar", "opt") else _lay_nested)(r, F, forest, eol)
        text = b"".join(pieces)
        # behind the last element: nothing / blank and comment lines / a last line without line feed
        k2 = r.random()
        last_is_header = False
        body = [p for p in pieces if p]
        if body and F[1] in ("bar", "enc"):
            lastline = body[-1].rstrip(b"\r\n").lstrip(b" \t\x0b\x0c")
            last_is_header = lastline.startswith(F[2].encode())
        if k2 < 0.3 and text.endswith(eol) and not last_is_header:
            text = text[:-len(eol)]          # no final line feed
        elif k2 < 0.5:
            text += _lay_between(r, F, eol) + eol + _lay_ws(r)
        elif k2 < 0.65:
            text += _lay_ws(r) + F[5][0].encode() + b" the end"
        lines = ["p fmt %s 255 255" % ("null" if F[0] is None else hx(F[0])), "p root .", "p input " + hx(text),
                 "p expect " + forest_text(_lay_norm(forest)), "p node", "p end"]
        out.append(("lay:%s:%d" % (F[1], k), lines))
    return out

def scripts(tier, seed, scale=1):
    return stat_all(exhaustive(tier) + random_forests(tier, seed, scale) + dotted(tier) + onequote(tier, seed)
                    + layouts(tier, seed, scale) + flagsets(tier, seed, scale) + bigvalues(tier) + valsweep(tier)
                    + pathfill(tier) + dataonly(tier) + bignames(tier))


def nontrivial(script, c_lines):
    for ln in c_lines:
        if ln.startswith("R ok sound"):
            i = ln.find("| C ")
            c = ln[i + 4:].split(" | ")[0].strip()
            if "=" in c or "(" in c:
                return True
    return False


def tally(chk, script, c_lines):
    d = chk.__dict__.setdefault("distribution", {})
    for ln in script:
        w = ln.split()
        if len(w) > 3 and w[1] == "render":
            k = "%s/decor%s" % (w[2], w[3])
            d[k] = d.get(k, 0) + 1


def _names(forest_txt):
    import re
    return [m.group(1) for m in re.finditer(r"(?:^|[,(])([0-9a-f]+|-)", forest_txt)]


def finding_key(script, res):
    op = (res.get("op") or "").split()
    line = res.get("line", -1)
    # the forest the failing `p node` was given
    forest = None
    for ln in script[:line + 1][::-1]:
        w = ln.split()
        if len(w) == 6 and w[1] == "render":
            forest = w[4]
            break
    if (res["kind"] == "c_ne_s" and len(op) > 1 and op[1] == "node" and forest is not None
            and "code: R err" in (res.get("detail") or "")):
        names = _names(forest)
        dots = [n for n in names if n != "-" and "2e" in [n[i:i + 2] for i in range(0, len(n), 2)]]
        if dots:
            return "c_ne_s:node:dot-in-name"
    return "%s:%s" % (res["kind"], op[1] if len(op) > 1 else "?")


class _XX:
    """second part: mpt::config_parser (mpt++/parse.cpp) through harness/drvxx_parse.cpp: texts of the reference
    writer are opened, read, reset and read again on ONE parser object; every read from the start of a text has
    to deliver exactly the forest"""
    id = "C09"
    area = "parse"
    driver = "drvxx_parse"
    cxx = True
    fixed_lines = 1
    link_extra = ["-fno-sanitize=vptr"]

    @staticmethod
    def corpus(chk):
        return stat_all([(n, s) for n, s in gen.corpus(id) if s and s[0].startswith("x ")])

    @staticmethod
    def scripts(tier, seed, scale=1):
        return stat_all(_XX._scripts(tier, seed, scale))

    @staticmethod
    def _scripts(tier, seed, scale=1):
        out = []
        r = gen.rng(id, tier, seed, "xx")
        forests = []
        for n in range(1, 4 if tier == "quick" else 5):
            for sh in shapes(n):
                for np_ in NAMEPATS[:2]:
                    for vp in VALPATS[:3]:
                        forests.append(forest_text(label(sh, np_, vp, [0])))
        forests = sorted(set(forests))
        for style in STYLES:
            reqs = [(style, r.randrange(NDECOR), f) for f in forests]
            res = render_all(reqs)
            items = [(d, f, h) for (s, d, f), (h, adm) in zip(reqs, res) if adm and h and len(h) < 4000]
            desc = STYLES[style]
            for i in range(0, len(items) - 1, 2):
                (d1, f1, h1), (d2, f2, h2) = items[i], items[i + 1]
                lines = ["x new 255 255", "x fmt " + ("null" if desc is None else hx(desc)),
                         "x render %s %d %s %s" % (style, d1, f1, h1), "x open", "x read",
                         "x reset", "x read",
                         "x render %s %d %s %s" % (style, d2, f2, h2), "x reset", "x read",
                         "x reset", "x read log",
                         "x render %s %d %s %s" % (style, d1, f1, h1), "x open", "x read", "x end"]
                out.append(("xx:%s:%d" % (style, i), lines))
            # a read REPLACES the target: an empty or comment-only text read afterwards leaves no children
            for j, (d1, f1, h1) in enumerate(items[:6]):
                for k, blank in enumerate(("", "\n\n", "# only a comment\n", "  \n#c\n \t\n")):
                    lines = ["x new 255 255", "x fmt " + ("null" if desc is None else hx(desc)),
                             "x render %s %d %s %s" % (style, d1, f1, h1), "x open", "x read",
                             "x file " + hx(blank), "x reset", "x read", "x read",
                             "x render %s %d %s %s" % (style, d1, f1, h1), "x reset", "x read", "x end"]
                    out.append(("xx:empty:%s:%d:%d" % (style, j, k), lines))
        # ONE parser context for two texts: the first ends with a pending name or data-only element, the second starts
        # with an empty-named element; the second tree is judged ('x expect')
        REUSE = [(None, ["alpha", "s {\nbeta", "k = 1\nlonger_name"], [("{\na=1\n}\n", "-(61=31)"), ("= v\nb=2\n", "-=76,62=32"),
                                                                  ("{\n{\nc=3\n}\n}\nd=4\n", "-(-(63=33)),64=34")]),
                 ("[ ] = #", ["x\ny", "alpha", "[s]\nk=1\nname"], [("[]\nk=1\n", "-(6b=31)"), ("[]\n[t]\nu=2\n", "-,74(75=32)")])]
        for desc, firsts, seconds in REUSE:
            for a, first in enumerate(firsts):
                for b, (second, forest) in enumerate(seconds):
                    lines = ["x new 255 255", "x fmt " + ("null" if desc is None else hx(desc)),
                             "x file " + hx(first), "x open", "x read",
                             "x file " + hx(second), "x expect " + forest, "x reset", "x read",
                             "x file " + hx(first), "x reset", "x read", "x read",
                             "x file " + hx(second), "x expect " + forest, "x open", "x read", "x end"]
                    out.append(("xx:reuse:%s:%d:%d" % (hx(desc or "d"), a, b), lines))
        return out

    @staticmethod
    def nontrivial(script, c_lines):
        return nontrivial(script, c_lines)

    tally = staticmethod(lambda chk, script, c_lines: None)
    finding_key = staticmethod(lambda script, res: finding_key(script, res))


extra_parts = [_XX]
