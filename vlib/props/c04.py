"""C04 — copy-on-write arrays behave as independent values."""
import re

from .. import gen

id = "C04"
area = "array"
driver = "drv_array"
cxx = False
fixed_lines = 1
rule = ("scripts = 'a handles n', a set-up (shared / immutable / no-copy / typed / full buffer), array ops, 'a end'; "
        "after every op the content read through every handle is compared (code = model, code within spec). "
        "Stream 1 is exhaustive: every op of the pool (14 op kinds x operands in {0,1,used-1,used,used+1,size,size+1} "
        "resolved at run time) on either of 2 handles from each of 10 set-ups, all pairs of a reduced pool from 5 set-ups, "
        "all triples of a small pool from 2 set-ups (thorough: all pairs of the full pool); stream 2 = slice windows "
        "(every window position x block counts/sizes, shared and private); stream 3 = random histories of length 30 "
        "over 3 handles with all flag combinations; second part (harness/drvxx_array.cpp): the C++ layer — mpt::array "
        "set/insert/append/slice assignment/copy/assignment and typed_array<T>/unique_array<T> insert/set/resize/reserve/"
        "detach/trim/skip for uint8_t and a 12-byte POD, 6 set-ups (shared, three holders, private, full, large) x every "
        "op (lengths below/equal/above the current length and the capacity, positions front/middle/end/past-the-end/"
        "negative), pairs of ops, random histories; array::set(const value &) for string/int32/double values and a character "
        "array; array::set(convertable &) with sources offering a generic vector, a character vector, a string, no string, "
        "nothing; array::printf; "
        "map<uint8_t,uint8_t> set/get of present and absent keys on private and shared maps (singles, all pairs, random); "
        "pointer_array<T> insert/set/swap (inside, at and outside the elements, negative)/compact/resize on private and "
        "shared arrays (singles, all pairs, random); mpt_buffer_insert called directly with positions up to SIZE_MAX; "
        "mpt_values_prepare (mptplot) with positive and negative counts on shared and unshared arrays of doubles; an "
        "io::buffer over an array that consumes and compacts (encode_array::shift; what it still offers to its reader is "
        "compared with the unconsumed rest); mpt_buffer_set with the buffer's own and with foreign element types (foreign: "
        "must be refused). Refusals: for append/insert/set/cut the S column has no 'refused' alternative when "
        "Spec/ArrayOps.lean mustSucceed holds (theorem must_succeed: empty handle or own writable buffer of the matching "
        "type, arguments inside the data); the same for C++ insert/append, for trim/skip of whole elements on an unshared "
        "buffer, for set(value) and for slice assignment inside the raw data of the source (these four without theorem); "
        "slice_write of n > 0 blocks must write at least one; third part (harness/drv_refs.c): raw "
        "data stages — mpt_stage_data + mpt_values_prepare on an array of value_store elements through 3 handles (4 "
        "set-ups x 18 ops, all pairs, triples on the shared set-up, random), S = the nested value read through every "
        "handle is independent of the others. "
        "Non-trivial = a mutating op succeeded through a handle whose "
        "buffer was shared (refcount >= 2) or immutable at that moment, counted per distinct script")
assumptions = [
    "malloc never fails in the harness runs and all sizes stay far below SIZE_MAX (no overflow branches)",
    "fresh heap memory holds the sanitizer fill byte 0xbe (model: same poison byte), so uninitialised bytes that "
    "become visible differ from the zero fill the spec demands",
    "vsnprintf(\"%s\") behaves as specified by C99 (model: at most len-1 bytes and a terminator, returns the length)",
    "buffer-level calls (mpt_buffer_cut/mpt_buffer_set) are made on a private buffer obtained by detach(), as the "
    "callers in the repository do; the driver's composition is modelled as cutOp/bsetOp",
    "slice windows are set up inside the used data (the 'inconsistent slice state' repair path is not driven); "
    "mpt_slice_write with element size 0 ('prepare memory') is not driven: like the append path it treats everything "
    "behind the window as scratch space",
    "source data handed to mpt_array_set/mpt_array_append/mpt_array_insert does not point into the target array's own buffer",
    "buffer::copy/buffer::move/buffer::skip/buffer::trim are buffer-level primitives that work in place; they are driven "
    "only on the private buffer obtained by detach() (trim, skip); copy/move are not driven",
]
trusted = ["hand-written model MptModel/Impl/Heap.lean tied to mptcore/array/*.c and mptplot/values/values_prepare.c by harness/drv_array.c",
           "stage part: hand-written model MptModel/Impl/Refs.lean (stagePut) tied to mptplot/values/stage_data.c, value_store_traits.c "
           "and values_prepare.c by harness/drv_refs.c",
           "hand-written model MptModel/Impl/HeapXX.lean tied to mpt++/array.cpp and the array.h templates by harness/drvxx_array.cpp "
           "(mpt++/array.cpp is compiled into the driver with UBSan's vptr check off: the buffers are C objects with a hand-made vtable)",
           "harness reads the private refcount of buffer_alloc.c through its layout (internals section only)"]

MUTATING = ("append", "insert", "set", "slice", "reserve", "cut", "bset", "bsetas", "printf", "swrite", "detach", "binsert", "string", "vprep")


def corpus(chk):
    return [(n, s) for n, s in gen.corpus(id) if s and s[0].startswith("a ")]


SETUPS = {
    "empty": [],
    "shared": ["a append h0 616263", "a clone h1 h0"],
    "private": ["a append h0 616263", "a append h1 7172"],
    "immutable": ["a alloc h0 0 1 - 616263"],
    "imm-shared": ["a alloc h0 0 1 - 616263", "a clone h1 h0"],
    "nocopy-shared": ["a alloc h0 0 2 - 616263", "a clone h1 h0"],
    "p4-shared": ["a alloc h0 0 0 p4 6162636465666768", "a clone h1 h0"],
    "p4-private": ["a alloc h0 0 0 p4 6162636465666768", "a alloc h1 0 0 c 7172"],
    "c-shared": ["a alloc h0 0 0 c 616263", "a clone h1 h0"],
    "full-shared": ["a alloc h0 64 0 - fill:64:30", "a clone h1 h0"],
    "c-full-shared": ["a alloc h0 64 0 c fill:64:30", "a clone h1 h0"],
    "d-shared": ["a alloc h0 0 0 d 000000000000f03f00000000000000400000000000000840", "a clone h1 h0"],
}
OPNDS = ["0", "1", "u-1", "u", "u+1", "s", "s+1"]


def pool(h, o, level):
    """ops on handle h (other handle o); level 0 = small, 1 = reduced, 2 = full"""
    ops = []
    if level == 0:
        return ["a append %s 41" % h, "a insert %s 1 42" % h, "a slice %s u 1" % h, "a cut %s 0 1" % h,
                "a bset %s u+1 43" % h, "a clone %s %s" % (h, o), "a drop %s" % h, "a reserve %s s+1 -" % h,
                "a set %s p4 0 44454647" % h, "a detach %s 1" % h]
    ops += ["a append %s %s" % (h, d) for d in ("-", "41", "zero:2", "fill:s:41", "fill:s+1:41")]
    for p in (OPNDS if level == 2 else ["0", "1", "u", "u+1", "s"]):
        ops.append("a insert %s %s 4243" % (h, p))
        if level == 2:
            ops.append("a insert %s %s fill:s:42" % (h, p))
    for tr, d in (("p4", "44454647"), ("p4", "zero:4"), ("c", "44"), ("-", "44"), ("p1", "44"), ("z", "-"), ("p4", "4445")) + \
            ((("p4", "fill:64:41"),) if level == 2 else ()):
        for off in (["0", "1", "-1", "-9", "u"] if level == 2 or tr == "p4" else ["0", "-1"]):
            ops.append("a set %s %s %s %s" % (h, tr, off, d))
    for off in (OPNDS if level == 2 else ["0", "u", "u+1", "s"]):
        for ln in (["0", "1", "4", "s"] if level == 2 else ["0", "1", "s"]):
            ops.append("a slice %s %s %s" % (h, off, ln))
    for n in ("0", "1", "u", "u+1", "s+1"):
        for tr in ("-", "p4", "c", "z"):
            if level == 2 or tr in ("-", "p4"):
                ops.append("a reserve %s %s %s" % (h, n, tr))
    ops.append("a reduce %s" % h)
    for n in ("0", "1", "u", "s+1"):
        ops.append("a detach %s %s" % (h, n))
    for off in (["0", "1", "u-1", "u", "u+1", "s+1"] if level == 2 else ["0", "1", "u", "u+1"]):
        for ln in (["0", "1", "4", "u", "u+1"] if level == 2 else ["0", "1", "u", "u+1"]):
            ops.append("a cut %s %s %s" % (h, off, ln))
    for p in (["0", "1", "u", "u+3", "s", "s+1"] if level == 2 else ["0", "u", "u+3", "s"]):
        for d in ("41", "zero:2", "41424344"):
            ops.append("a bset %s %s %s" % (h, p, d))
    # mpt_buffer_set with the buffer's own, a compatible-looking or a foreign element type
    for tr, p, d in ((("p4", "0", "41424344"), ("p4", "u", "41424344"), ("p4", "1", "41424344"), ("-", "u", "41"), ("c", "0", "41"),
                      ("p1", "1", "4142"), ("c", "u+2", "41"), ("-", "0", "zero:2")) if level == 2 else (("p4", "0", "41424344"), ("-", "u", "41"))):
        ops.append("a bsetas %s %s %s %s" % (h, tr, p, d))
    for d in ("41", "-", "fill:63:41", "fill:64:41", "fill:65:41", "fill:s:41"):
        ops.append("a printf %s %s" % (h, d))
    if level == 2:
        # output that crosses the end of the buffer and ends one byte before a 64 byte block (no room for the terminator
        # unless the second pass asks for the whole block), onto 0, 3 and 8 bytes of content
        for n in (127, 124, 119, 191, 188, 128):
            ops.append("a printf %s fill:%d:41" % (h, n))
    ops.append("a string %s" % h)
    # mpt_buffer_insert called directly on a private copy (positions up to the overflow of pos + len)
    for p in (["0", "1", "u", "u+3", "s", "s+1", "18446744073709551612", "18446744073709551615"] if level == 2 else ["1", "u+3", "18446744073709551612"]):
        ops.append("a binsert %s %s 4142" % (h, p))
    if level == 2:
        ops.append("a binsert %s 9223372036854775808 zero:8" % h)
    # mpt_values_prepare (mptplot): append zeroed doubles / a copy of the last ones
    for n in (["0", "1", "5", "6", "9", "-1", "-3", "-4", "-9"] if level == 2 else ["1", "6", "-1", "-4"] if level == 1 else ["1", "-1"]):
        ops.append("a vprep %s %s" % (h, n))
    ops.append("a clone %s %s" % (h, o))
    ops.append("a drop %s" % h)
    return ops


def both(level):
    return pool("h0", "h1", level) + pool("h1", "h0", level)


def _script(setup, ops, nh=2):
    return ["a handles %d" % nh] + list(setup) + list(ops) + ["a end"]


def slice_scripts(tier):
    out = []
    bases = {
        "priv": ["a append h0 6162636465666768"],
        "shared": ["a append h0 6162636465666768", "a clone h1 h0"],
        "imm": ["a alloc h0 0 1 - 6162636465666768"],
        "full": ["a alloc h0 64 0 - fill:64:30"],
        "nearfull": ["a alloc h0 64 0 - fill:60:30"],
        "empty": [],
    }
    wins = [("0", "0"), ("0", "u"), ("2", "3"), ("u", "0"), ("3", "u-3"), ("1", "1"), ("0", "u+1")]
    writes = [(1, 1), (2, 1), (3, 2), (1, 4), (2, 4), (0, 1), (1, 56), (2, 28), (1, 64), (3, 30), (1, 120)]
    if tier != "quick":
        writes += [(4, 16), (5, 13), (1, 57), (1, 58), (2, 60), (64, 1), (8, 8)]
    for bn, base in bases.items():
        for (o, l) in wins:
            for (n, e) in writes:
                for null in (False, True):
                    d = ("zero:%d" % (n * e)) if null else ("fill:%d:51" % (n * e))
                    ops = ["a window h0 %s %s" % (o, l), "a swrite h0 %d %d %s" % (n, e, d),
                           "a swrite h0 1 2 7a7a", "a swrite h0 %d %d %s" % (n, e, d)]
                    out.append(("sl:%s/%s+%s/%dx%d%s" % (bn, o, l, n, e, "z" if null else ""), _script(base, ops)))
    return out


def random_scripts(tier, seed, scale):
    out = []
    n = (300 if tier == "quick" else 4000) * scale
    r = gen.rng(id, tier, seed, "random")
    hs = ["h0", "h1", "h2"]
    for k in range(n):
        lines = ["a handles 3"]
        # initial buffers with every flag combination
        for h in hs:
            c = r.random()
            if c < 0.25:
                continue
            tr = r.choice(["-", "-", "-", "p4", "c", "p1", "p24"])
            esz = {"-": 1, "p4": 4, "c": 1, "p1": 1, "p24": 24}[tr]
            ln = r.choice([0, 1, 2, 5, 16, 60, 64, 100]) // esz * esz if esz > 1 else r.choice([0, 1, 3, 5, 60, 63, 64, 65, 100, 192])
            lines.append("a alloc %s %s %d %s %s" % (h, r.choice(["0", "0", "64", "65", "200"]), r.choice([0, 0, 0, 1, 2, 3]), tr,
                                                     gen.hexs([r.randrange(1, 256) for _ in range(ln)])))
        wmode = set()
        for _ in range(30):
            h = r.choice(hs)
            o = r.choice([x for x in hs if x != h])
            if h in wmode:
                kind = r.choice(["swrite", "swrite", "swrite", "drop"])
            else:
                kind = r.choice(["append", "append", "insert", "set", "slice", "reserve", "reduce", "detach", "cut", "bset",
                                 "printf", "string", "clone", "clone", "clone", "drop", "window"])
            opn = lambda: r.choice(OPNDS + ["2", "3", "7", "u-2", "u+5", "s-1", str(r.randrange(0, 300))])
            dat = lambda: r.choice(["-", "41", "4243", "zero:3", "fill:s:41", "fill:s+1:41", "fill:u:41", "fill:7:61",
                                    gen.hexs([r.randrange(256) for _ in range(r.choice([1, 2, 4, 8, 24, 70]))])])
            if kind == "append":
                lines.append("a append %s %s" % (h, dat()))
            elif kind == "insert":
                lines.append("a insert %s %s %s" % (h, opn(), dat()))
            elif kind == "set":
                tr = r.choice(["p4", "p4", "c", "p1", "p24", "-", "z"])
                esz = {"p4": 4, "c": 1, "p1": 1, "p24": 24, "-": 1, "z": 1}[tr]
                cnt = r.choice([0, 1, 1, 2, 3])
                d = r.choice(["zero:%d" % (cnt * esz), gen.hexs([r.randrange(256) for _ in range(cnt * esz)]),
                              gen.hexs([r.randrange(256) for _ in range(cnt * esz + r.choice([0, 0, 0, 1]))])])
                lines.append("a set %s %s %s %s" % (h, tr, r.choice(["0", "1", "2", "-1", "-2", "-30", "5", "u"]), d))
            elif kind == "slice":
                lines.append("a slice %s %s %s" % (h, opn(), r.choice(["0", "1", "4", "24", "s", "u"])))
            elif kind == "reserve":
                lines.append("a reserve %s %s %s" % (h, opn(), r.choice(["-", "-", "p4", "c", "p1", "p24", "z"])))
            elif kind == "reduce":
                lines.append("a reduce %s" % h)
            elif kind == "detach":
                lines.append("a detach %s %s" % (h, opn()))
            elif kind == "cut":
                lines.append("a cut %s %s %s" % (h, opn(), r.choice(["0", "1", "4", "u", "u+1", "u-1", "24"])))
            elif kind == "bset":
                lines.append("a bset %s %s %s" % (h, opn(), dat()))
            elif kind == "printf":
                lines.append("a printf %s %s" % (h, r.choice(["41", "-", "fill:5:41", "fill:63:41", "fill:64:41", "fill:65:41",
                                                              "fill:s:41", "fill:130:41"])))
            elif kind == "string":
                lines.append("a string %s" % h)
            elif kind == "clone":
                if o in wmode:
                    continue
                lines.append("a clone %s %s" % (h, o))
            elif kind == "drop":
                lines.append("a drop %s" % h)
                wmode.discard(h)
            elif kind == "window":
                lines.append("a window %s %s %s" % (h, r.choice(["0", "1", "2", "u"]), r.choice(["0", "1", "2", "u", "u-2"])))
                # the window op may be refused or unparsable; the generator only needs an over-approximation
                wmode.add(h)
                lines.append("a swrite %s 1 1 55" % h)
            else:
                nb, es = r.choice([(0, 1), (1, 1), (2, 1), (1, 4), (3, 4), (2, 30), (1, 64), (1, 130)])
                lines.append("a swrite %s %d %d %s" % (h, nb, es, r.choice(["zero:%d" % (nb * es), "fill:%d:61" % (nb * es)])))
        lines.append("a end")
        out.append(("rnd:%d" % k, lines))
    return out


def scripts(tier, seed, scale=1):
    out = []
    full = both(2)
    red = both(1)
    small = both(0)
    for sn, setup in SETUPS.items():
        for op in full:
            out.append(("ex1:%s:%s" % (sn, op), _script(setup, [op])))
    pair_pool = red if tier == "quick" else full
    pair_setups = ["shared", "imm-shared", "p4-shared", "full-shared", "private", "d-shared"] if tier == "quick" else list(SETUPS)
    if tier == "quick":
        # quick: first op from the reduced pool, second op from the small pool and vice versa
        for sn in pair_setups:
            for a in red:
                for b in small:
                    out.append(("ex2:%s:%s;%s" % (sn, a, b), _script(SETUPS[sn], [a, b])))
                    out.append(("ex2:%s:%s;%s" % (sn, b, a), _script(SETUPS[sn], [b, a])))
    else:
        for sn in pair_setups:
            for a in pair_pool:
                for b in red:
                    out.append(("ex2:%s:%s;%s" % (sn, a, b), _script(SETUPS[sn], [a, b])))
    for sn in ("shared", "p4-shared") if tier == "quick" else ("shared", "p4-shared", "imm-shared", "nocopy-shared"):
        for a in small:
            for b in small:
                for c in small:
                    out.append(("ex3:%s:%s;%s;%s" % (sn, a, b, c), _script(SETUPS[sn], [a, b, c])))
    out += slice_scripts(tier)
    out += random_scripts(tier, seed, scale)
    return out


class _XX:
    """second part: the C++ array layer (mpt++/array.cpp, array.h templates) through harness/drvxx_array.cpp"""
    id = "C04"
    area = "array"
    driver = "drvxx_array"
    cxx = True
    fixed_lines = 1
    # the buffers are C objects with a hand-made vtable: UBSan's C++ vptr check cannot accept them
    link_extra = ["-fno-sanitize=vptr"]

    @staticmethod
    def corpus(chk):
        return [(n, s) for n, s in gen.corpus(id) if s and s[0].startswith("x ")]

    ARR_SETUPS = {
        "empty": [],
        "shared": ["x set h0 616263646566", "x clone h1 h0"],
        "shared3": ["x set h0 616263646566", "x clone h1 h0", "x copy h2 h1"],
        "private": ["x set h0 616263646566", "x set h1 7172"],
        "full-shared": ["x set h0 fill:64:30", "x copy h1 h0"],
        "big-shared": ["x set h0 fill:100:30", "x clone h1 h0"],
    }
    TYP_SETUPS = {
        "empty": [],
        "shared": ["x resize h0 3", "x set h0 1 51", "x clone h1 h0"],
        "shared3": ["x insert h0 0 41", "x insert h0 1 42", "x clone h1 h0", "x copy h2 h0"],
        "private": ["x resize h0 3", "x resize h1 2", "x set h1 0 61"],
        "big-shared": ["x resize h0 100", "x set h0 99 51", "x clone h1 h0"],
        "full-shared": ["x resize h0 5", "x reserve h0 5", "x copy h1 h0"],
    }

    @staticmethod
    def arr_ops(h, o, level):
        ops = []
        lens = [0, 1, 3, 5, 6, 7, 64, 65, 100, 200] if level else [0, 2, 6, 7, 70]
        for n in lens:
            ops.append("x set %s %s" % (h, "fill:%d:41" % n if n else "-"))
            if level:
                ops.append("x set %s zero:%d" % (h, n))
            ops.append("x append %s %s" % (h, "fill:%d:51" % n if n else "-"))
        for off in ([0, 1, 5, 6, 7, 60, 64, 200] if level else [0, 3, 6, 70]):
            for n in ([0, 1, 2, 64] if level else [2]):
                ops.append("x insert %s %d %s" % (h, off, "fill:%d:71" % n if n else "-"))
            if level:
                ops.append("x insert %s %d zero:3" % (h, off))
        for off in ([0, 1, 3, 6, 7] if level else [0, 2]):
            for n in ([0, 1, 3, 6] if level else [2]):
                ops.append("x setslice %s %s %d %d" % (h, o, off, n))
                if level:
                    ops.append("x setslice %s %s %d %d" % (h, h, off, n))
        # an io::buffer over the array (another handle) consumes n bytes and compacts itself: the array keeps its value
        ops += ["x ebuf %s 0" % h, "x ebuf %s 3" % h, "x ebuf %s 6" % h, "x ebuf %s 500" % h]
        # array::set(const value &): string, int32, double
        ops += ["x setv %s s fill:5:41" % h, "x setv %s s -" % h, "x setv %s i 01020304" % h, "x setv %s d 0102030405060708" % h]
        if level:
            ops += ["x setv %s s fill:63:41" % h, "x setv %s s fill:64:41" % h, "x setv %s s fill:200:41" % h]
            # a character array as value (terminated if it is not); array::set(convertable &): the source offers a generic
            # vector, a character vector, a string, "no string", or nothing
            ops += ["x setv %s a 414243" % h, "x setv %s a 41424300" % h, "x setv %s a -" % h, "x setv %s a fill:64:41" % h]
            ops += ["x printf %s 4142" % h, "x printf %s fill:70:41" % h, "x printf %s -" % h]
            ops += ["x setc %s v 414243" % h, "x setc %s c fill:70:41" % h, "x setc %s v -" % h, "x setc %s s 6162" % h, "x setc %s s -" % h,
                    "x setc %s s fill:64:61" % h, "x setc %s z 61" % h, "x setc %s e 61" % h]
        ops += ["x clone %s %s" % (h, o), "x copy %s %s" % (h, o), "x drop %s" % h]
        return ops

    @staticmethod
    def typ_ops(h, o, level):
        ops = []
        for p in ([0, 1, 2, 3, 4, 9, 100, -1, -3, -4, -200] if level else [0, 2, 3, 5, -1]):
            ops.append("x insert %s %d 41" % (h, p))
            ops.append("x set %s %d 47" % (h, p))
        for n in ([0, 1, 2, 3, 4, 5, 6, 64, 65, 100, 200] if level else [0, 2, 3, 7, 100]):
            ops.append("x resize %s %d" % (h, n))
            ops.append("x reserve %s %d" % (h, n))
        for n in ([0, 1, 3, 4, 100] if level else [0, 1, 4]):
            ops.append("x trim %s %d" % (h, n))
            ops.append("x skip %s %d" % (h, n))
        ops += ["x detach %s" % h, "x clone %s %s" % (h, o), "x copy %s %s" % (h, o), "x drop %s" % h]
        return ops

    @staticmethod
    def gen(kinds, tier, seed, scale, prop_id, elem):
        out = []
        X = _XX
        for kind in kinds:
            arr = kind == "arr"
            setups = X.ARR_SETUPS if arr else X.TYP_SETUPS
            mk = X.arr_ops if arr else X.typ_ops
            full = mk("h0", "h1", 1) + mk("h1", "h0", 1)
            small = mk("h0", "h1", 0) + mk("h1", "h0", 0)
            if elem:
                full = [o for o in full if " set " not in o]
                small = [o for o in small if " set " not in o]
            def wrap(setup, ops):
                su = [x for x in setup if not (elem and " set " in x)]
                return ["x handles 3 " + kind] + su + list(ops) + ["x end"]
            for sn, setup in setups.items():
                for a in full:
                    out.append(("xx1:%s:%s:%s" % (kind, sn, a), wrap(setup, [a])))
            if tier == "quick" and kind in ("t12", "u12"):
                continue   # pairs for the 12-byte POD only in the thorough tier (singles and random histories stay)
            for sn in (("shared", "big-shared") if tier == "quick" else tuple(setups)):
                first = small if tier == "quick" else full
                if elem and tier == "quick" and sn == "big-shared":
                    first = small[::4]      # the model judges 100 tokens after every op: costly, thinned out in the quick tier
                for a in first:
                    for b in small:
                        out.append(("xx2:%s:%s:%s;%s" % (kind, sn, a, b), wrap(setups[sn], [a, b])))
        r = gen.rng(prop_id, tier, seed, "xx-random")
        for k in range((200 if tier == "quick" else 2500) * scale):
            kind = r.choice(kinds)
            arr = kind == "arr"
            lines = ["x handles 3 " + kind]
            hs = ["h0", "h1", "h2"]
            for _ in range(25):
                h = r.choice(hs)
                o = r.choice([x for x in hs if x != h])
                if arr:
                    op = r.choice(["set", "set", "append", "insert", "setslice", "clone", "clone", "copy", "drop", "setv"])
                    n = r.choice([0, 1, 2, 5, 8, 60, 64, 65, 130])
                    d = r.choice(["fill:%d:41" % n if n else "-", "zero:%d" % n])
                    if op in ("set", "append"):
                        lines.append("x %s %s %s" % (op, h, d))
                    elif op == "insert":
                        lines.append("x insert %s %d %s" % (h, r.choice([0, 1, 2, 5, 8, 63, 64, 70, 150]), d))
                    elif op == "setslice":
                        lines.append("x setslice %s %s %d %d" % (h, r.choice(hs), r.choice([0, 1, 2, 5, 60]), r.choice([0, 1, 2, 5, 64])))
                    elif op == "drop":
                        lines.append("x drop %s" % h)
                    elif op == "setv":
                        lines.append("x setv %s %s" % (h, r.choice(["s fill:%d:41" % n if n else "s -", "i 0a0b0c0d", "d 0102030405060708"])))
                    else:
                        lines.append("x %s %s %s" % (op, h, o))
                else:
                    op = r.choice(["insert", "insert", "set", "resize", "resize", "reserve", "detach", "trim", "skip",
                                   "clone", "clone", "copy", "drop"])
                    if elem and op == "set":
                        op = "resize"
                    if op in ("insert", "set"):
                        lines.append("x %s %s %d %02x" % (op, h, r.choice([0, 0, 1, 2, 3, 5, 8, 20, -1, -2, -9]), r.randrange(1, 200)))
                    elif op in ("resize", "reserve"):
                        lines.append("x %s %s %d" % (op, h, r.choice([0, 1, 2, 3, 5, 6, 7, 16, 17, 64, 65, 100])))
                    elif op in ("trim", "skip"):
                        lines.append("x %s %s %d" % (op, h, r.choice([0, 1, 2, 3, 10])))
                    elif op in ("detach", "drop"):
                        lines.append("x %s %s" % (op, h))
                    else:
                        lines.append("x %s %s %s" % (op, h, o))
            lines.append("x end")
            out.append(("xxr:%d" % k, lines))
        return out

    @staticmethod
    def map_scripts(tier, seed, scale):
        """map<uint8_t, uint8_t>: set/get of present and absent keys on private and shared maps (copies share the
        entries), histories of length up to 3 from a small pool and random ones"""
        out = []
        setups = {"empty": [], "two": ["x mset h0 01 41", "x mset h0 02 42"],
                  "two-shared": ["x mset h0 01 41", "x mset h0 02 42", "x clone h1 h0"],
                  "many-shared": ["x mset h0 %02x %02x" % (k, 0x60 + k) for k in range(1, 34)] + ["x copy h1 h0"]}
        def ops(h, o):
            return ["x mset %s 01 51" % h, "x mset %s 02 52" % h, "x mset %s 03 53" % h, "x mget %s 01" % h, "x mget %s 02" % h,
                    "x mget %s 03" % h, "x mget %s 21" % h, "x mset %s 21 7f" % h, "x clone %s %s" % (h, o), "x drop %s" % h]
        pool = ops("h0", "h1") + ops("h1", "h0")
        for sn, su in setups.items():
            for a in pool:
                out.append(("mp1:%s:%s" % (sn, a), ["x handles 2 mp"] + su + [a, "x mget h0 01", "x mget h1 01", "x end"]))
                for b in pool:
                    out.append(("mp2:%s:%s;%s" % (sn, a, b), ["x handles 2 mp"] + su + [a, b, "x mget h0 02", "x mget h1 02", "x end"]))
        r = gen.rng(id, tier, seed, "xx-map")
        for k in range((100 if tier == "quick" else 1500) * scale):
            lines = ["x handles 3 mp"]
            hs = ["h0", "h1", "h2"]
            for _ in range(20):
                h = r.choice(hs)
                op = r.choice(["mset", "mset", "mset", "mget", "mget", "clone", "copy", "drop"])
                if op == "mset":
                    lines.append("x mset %s %02x %02x" % (h, r.randrange(1, 6), r.randrange(1, 250)))
                elif op == "mget":
                    lines.append("x mget %s %02x" % (h, r.randrange(1, 7)))
                elif op == "drop":
                    lines.append("x drop %s" % h)
                else:
                    lines.append("x %s %s %s" % (op, h, r.choice([x for x in hs if x != h])))
            lines.append("x end")
            out.append(("mpr:%d" % k, lines))
        return out

    @staticmethod
    def pa_scripts(tier, seed, scale):
        """pointer_array<T>: insert/set of pointers (00 = null), swap inside and outside the elements, compact on private
        and shared arrays"""
        out = []
        setups = {"empty": [], "holes": ["x insert h0 0 11", "x insert h0 1 00", "x insert h0 2 33", "x insert h0 5 66"],
                  "holes-shared": ["x insert h0 0 11", "x insert h0 1 00", "x insert h0 2 33", "x insert h0 5 66", "x clone h1 h0"],
                  "full-shared": ["x insert h0 %d %02x" % (k, k + 1) for k in range(8)] + ["x copy h1 h0"]}
        def ops(h, o):
            return ["x swap %s 0 2" % h, "x swap %s 0 5" % h, "x swap %s 0 6" % h, "x swap %s 5 6" % h, "x swap %s -1 0" % h,
                    "x swap %s 0 8" % h, "x swap %s 7 8" % h, "x swap %s 3 3" % h, "x compact %s" % h, "x insert %s 1 77" % h,
                    "x insert %s -1 00" % h, "x set %s 0 00" % h, "x resize %s 3" % h, "x clone %s %s" % (h, o), "x drop %s" % h]
        pool = ops("h0", "h1") + ops("h1", "h0")
        for sn, su in setups.items():
            for a in pool:
                out.append(("pa1:%s:%s" % (sn, a), ["x handles 2 pa"] + su + [a, "x end"]))
                for b in pool:
                    out.append(("pa2:%s:%s;%s" % (sn, a, b), ["x handles 2 pa"] + su + [a, b, "x end"]))
        r = gen.rng(id, tier, seed, "xx-pa")
        for k in range((100 if tier == "quick" else 1500) * scale):
            lines = ["x handles 3 pa"]
            hs = ["h0", "h1", "h2"]
            for _ in range(20):
                h = r.choice(hs)
                op = r.choice(["insert", "insert", "insert", "set", "swap", "swap", "compact", "resize", "clone", "copy", "drop"])
                if op in ("insert", "set"):
                    lines.append("x %s %s %d %02x" % (op, h, r.choice([0, 0, 1, 2, 3, 6, -1, -2]), r.choice([0, 0, 0x11, 0x22, 0x33, 0x44])))
                elif op == "swap":
                    lines.append("x swap %s %d %d" % (h, r.choice([-1, 0, 1, 2, 3, 7, 8]), r.choice([0, 1, 2, 4, 8, 9])))
                elif op == "resize":
                    lines.append("x resize %s %d" % (h, r.choice([0, 1, 3, 8, 9])))
                elif op in ("compact", "drop"):
                    lines.append("x %s %s" % (op, h))
                else:
                    lines.append("x %s %s %s" % (op, h, r.choice([x for x in hs if x != h])))
            lines.append("x end")
            out.append(("par:%d" % k, lines))
        return out

    @staticmethod
    def scripts(tier, seed, scale=1):
        return (_XX.gen(["arr", "t1", "t12", "u1", "u12"], tier, seed, scale, id, False) + _XX.map_scripts(tier, seed, scale)
                + _XX.pa_scripts(tier, seed, scale))

    @staticmethod
    def nontrivial(script, c_lines):
        return _xx_nontrivial(script, c_lines)


class _Stage:
    """third part: raw data stages of mptplot/values — an array of value_store elements (each holding an array of
    doubles) driven through mpt_stage_data + mpt_values_prepare (harness/drv_refs.c, 'r' lines; model
    MptModel/Impl/Refs.lean); S: the nested value read through every handle is independent of the other handles"""
    id = "C04"
    area = "array"
    driver = "drv_refs"
    cxx = False
    fixed_lines = 1

    @staticmethod
    def corpus(chk):
        return [(n, s) for n, s in gen.corpus(id) if s and s[0].startswith("r ")]

    @staticmethod
    def scripts(tier, seed, scale=1):
        out = []
        setups = {"empty": [], "two": ["r sput h0 0 1", "r sput h0 1 2"], "two-shared": ["r sput h0 0 1", "r sput h0 1 2", "r clone h1 h0"],
                  "three-holders": ["r sput h0 0 1", "r sput h0 2 3", "r clone h1 h0", "r clone h2 h0"]}
        def ops(h, o):
            return ["r sput %s 0 7" % h, "r sput %s 1 8" % h, "r sput %s 2 9" % h, "r sput %s 4 5" % h, "r clone %s %s" % (h, o), "r drop %s" % h]
        pool = ops("h0", "h1") + ops("h1", "h0") + ops("h2", "h0")
        for sn, su in setups.items():
            for a in pool:
                out.append(("st1:%s:%s" % (sn, a), ["r handles 3"] + su + [a, "r end"]))
                for b in pool:
                    out.append(("st2:%s:%s;%s" % (sn, a, b), ["r handles 3"] + su + [a, b, "r end"]))
                    if tier != "quick" or sn == "two-shared":
                        for c in pool[::2]:
                            out.append(("st3:%s:%s;%s;%s" % (sn, a, b, c), ["r handles 3"] + su + [a, b, c, "r end"]))
        # arrays of array handles (mpt_array_traits) as nested values: wrap, append another handle's value, assign a
        # handle one of its own elements (the source lives in the buffer the target gives up) or one of another handle
        nsetups = {"nest3": ["r wrap h0", "r wrap h0", "r wrap h0"], "nest3-shared": ["r wrap h0", "r wrap h0", "r wrap h0", "r clone h1 h0"],
                   "wide": ["r wrap h1", "r wrap h0", "r wrap h0", "r push h0 h1", "r drop h1"], "empty": []}
        def nops(h, o):
            return ["r take %s 0" % h, "r take %s 1" % h, "r takeo %s %s 0" % (h, o), "r wrap %s" % h, "r push %s %s" % (h, o),
                    "r clone %s %s" % (h, o), "r drop %s" % h]
        npool = nops("h0", "h1") + nops("h1", "h0")
        for sn, su in nsetups.items():
            for a in npool:
                out.append(("ne1:%s:%s" % (sn, a), ["r handles 2"] + su + [a, "r end"]))
                for b in npool:
                    out.append(("ne2:%s:%s;%s" % (sn, a, b), ["r handles 2"] + su + [a, b, "r end"]))
                    if tier != "quick":
                        for c in npool:
                            out.append(("ne3:%s:%s;%s;%s" % (sn, a, b, c), ["r handles 2"] + su + [a, b, c, "r end"]))
        r = gen.rng(id, tier, seed, "stage")
        hs = ["h0", "h1", "h2"]
        for k in range((150 if tier == "quick" else 3000) * scale):
            lines = ["r handles 3"]
            for _ in range(r.randrange(4, 20)):
                h = r.choice(hs)
                op = r.choice(["sput", "sput", "sput", "clone", "clone", "drop"])
                if op == "sput":
                    lines.append("r sput %s %d %d" % (h, r.choice([0, 0, 1, 1, 2, 3, 5]), r.randrange(1, 99)))
                elif op == "clone":
                    lines.append("r clone %s %s" % (h, r.choice([x for x in hs if x != h])))
                else:
                    lines.append("r drop %s" % h)
            lines.append("r end")
            out.append(("str:%d" % k, lines))
        return out

    @staticmethod
    def nontrivial(script, c_lines):
        # a value was stored through a handle while another handle held the same stage
        shared = False
        for ln in script:
            w = ln.split()
            if w[1] == "clone":
                shared = True
            elif w[1] in ("sput", "take", "takeo", "push", "wrap") and shared:
                return True
        return False

    @staticmethod
    def finding_key(script, res):
        op = (res.get("op") or "").split()
        return "stage:%s:%s" % (res["kind"], op[1] if len(op) > 1 else "?")


XMUT = ("set", "insert", "append", "setslice", "resize", "reserve", "detach", "trim", "skip", "setv", "setc", "printf", "mset", "swap", "compact")


def _xx_nontrivial(script, c_lines):
    for i in range(1, min(len(script), len(c_lines))):
        w = script[i].split()
        if len(w) < 3 or w[1] not in XMUT or " ok " not in c_lines[i][:40]:
            continue
        st = _state(c_lines[i - 1])
        if not st:
            continue
        hs, bufs = st
        b = hs.get(w[2])
        if b in bufs and bufs[b][0] >= 2:
            return True
    return False


extra_parts = [_XX, _Stage]


_I = re.compile(r"\| I ret=\S+ hs=(\S+) bufs=(\S+)")


def _state(line):
    m = _I.search(line)
    if not m:
        return None
    hs = {}
    for item in m.group(1).split(","):
        h, _, b = item.partition(":")
        hs[h] = b.split("@")[0]
    bufs = {}
    if m.group(2) != "-":
        for item in m.group(2).split(","):
            f = item.split(":")
            if len(f) >= 3:
                bufs[f[0]] = (int(f[1][1:]), int(f[2][1:]))
    return hs, bufs


def nontrivial(script, c_lines):
    for i in range(1, min(len(script), len(c_lines))):
        w = script[i].split()
        if len(w) < 3 or w[1] not in MUTATING or not c_lines[i].startswith("R ok"):
            continue
        st = _state(c_lines[i - 1])
        if not st:
            continue
        hs, bufs = st
        b = hs.get(w[2])
        if b in bufs and (bufs[b][0] >= 2 or bufs[b][1] & 1):
            return True
    return False


def tally(chk, script, c_lines):
    d = chk.__dict__.setdefault("distribution", {})
    for op in script[1:]:
        k = op.split()[1]
        d[k] = d.get(k, 0) + 1
    for ln in c_lines:
        if ln.startswith("R refused"):
            d["refused"] = d.get("refused", 0) + 1


def finding_key(script, res):
    op = (res.get("op") or "").split()
    return "%s:%s" % (res["kind"], op[1] if len(op) > 1 else "?")
