"""C18 — visible line parts partition the data exactly."""
import itertools

from .. import gen

id = "C18"
area = "linepart"
driver = "drv_linepart"
cxx = False
fixed_lines = 1
rule = ("scripts = 'l range <min> <max>' followed by 'l data'/'l run' pairs (run = repeated mpt_linepart_linear calls "
        "advancing by raw, all records compared), 'l code', 'l join'; stream 1 enumerates EVERY sequence over the "
        "5-symbol alphabet {below, at-min, inside, at-max, above} up to length 7 (quick) / 8 (thorough) for 3 ranges "
        "(40 sequences per script); stream 2 = runs of 65533..65537 points around the per-part limit, degenerate/"
        "inverted/NULL ranges, code/join boundary operands; stream 3 = random dyadic sequences (multiples of 1/8, "
        "equal neighbours frequent) against random ranges, random code and join operands; stream 4 = general doubles (53-bit "
        "mantissas in values and range bounds, so the C quotient is rounded); values are exactly "
        "representable so the comparison is exact; non-trivial = a script in which the code reported at least one "
        "part with a cut or trim fraction or with usr != raw (a range boundary was crossed), or a join that succeeded, "
        "counted per distinct script; second driver part (C++ layer, harness/drvxx_linepart.cpp): linepart::array::"
        "set/apply incl. the merge path and polyline::iterator/part::points over every 1-dimensional sequence up to "
        "length 4 (quick) / 5 (thorough), pairs of sequences for two dimensions, lengths around 65533/131066, and "
        "random data in up to three dimensions with repeated application, the transformations the library ships "
        "(layout::graph::transform3 with limits, the default transform::part()) with one-point remainders, empty "
        "parts and lengths around 65535/65536, polyline::set over value stores of equal length (all three "
        "transformations), re-set arrays (set after apply, set(-1)), a dimension the transformation lacks, the C++ "
        "wrappers of join and code; the part view (polyline::part::points) is judged with the data: every point handed "
        "out is visible in every applied dimension; the model driver judges every record list "
        "with the multi-dimensional form of the property")
assumptions = [
    "doubles are exchanged only as dyadic fractions (|numerator| < 2^53, denominator <= 2^60); rounding of arbitrary "
    "doubles, infinities and NaN are outside the model (exact rationals)",
    "the double quotient (bound - x0)/(x1 - x0) carries a relative rounding error of a few 2^-53; its code equals the "
    "code of the exact quotient unless the exact quotient times 65536 lies within about 2^-36 of a whole number (stream "
    "fullprec feeds operands with full 53-bit mantissas; theorem code_monotone bounds the effect of such an error by one "
    "neighbouring code)",
    "C++ layer: the transformation is a test double of layout::graph::transform3 (part() = mpt_linepart_linear with "
    "the range of the dimension), the real layout::graph::transform3 with TransformLimit, or a class inheriting the "
    "default transform::part(); polyline::set / apply_data / value_store are not modelled; the C++ sources are "
    "compiled into the driver with UBSan's vptr check off (buffers are C objects with a hand-made vtable)",
]
trusted = ["hand-written model MptModel/Impl/Linepart.lean tied to mptplot/values/linepart_*.c by harness/drv_linepart.c"]

# (min, max, below, at-min, inside, at-max, above)
RANGES = [
    ("0", "1", "-1", "0", "1/2", "1", "2"),
    ("-3/2", "5/4", "-4", "-3/2", "1/4", "5/4", "7"),
    ("-8", "-1/4", "-9", "-8", "-3", "-1/4", "0"),
]


def corpus(chk):
    return [(n, s) for n, s in gen.corpus(id) if not (s and s[0].startswith("xl "))]


def _fmt8(k):
    """k/8 as an operand"""
    if k % 8 == 0:
        return str(k // 8)
    d = 8
    while k % 2 == 0:
        k //= 2
        d //= 2
    return "%d/%d" % (k, d)


def _exhaustive(top):
    out = []
    for ri, rg in enumerate(RANGES):
        syms = rg[2:]
        seqs = []
        for n in range(1, top + 1):
            for t in itertools.product(range(5), repeat=n):
                seqs.append(t)
        for s in range(0, len(seqs), 40):
            lines = ["l range %s %s" % (rg[0], rg[1])]
            for t in seqs[s:s + 40]:
                lines.append("l data " + ",".join(syms[i] for i in t))
                lines.append("l run")
            out.append(("ex:%d:%d" % (ri, s), lines))
    return out


def _boundary():
    out = []
    rg = "l range 0 1"
    k = 0
    for n in (65533, 65534, 65535, 65536, 65537):
        pats = [
            "%d*1/2" % n,
            "%d*-1" % n,
            "%d*2,1/2" % n,
            "%d*1/2,-1,1/2" % (n - 1),
            "%d*1/2,2,2,1/2,1/2" % (n - 1),
            "%d*-1,1/2,1/2" % n,
            "-1,%d*1/2,2,1/2" % n,
            "-1,%d*1/2,2,-1,1/2" % (n - 2),
            "1/2,%d*2,1/2,3" % (n - 1),
            "1/2,-1,%d*2,1/2,3" % (n - 2),
            "%d*0,1,%d*1/4" % (n, n),
        ]
        for p in pats:
            out.append(("lim:%d:%d" % (n, k), [rg, "l data " + p, "l run"]))
            k += 1
        out.append(("lim:null:%d" % n, ["l range null", "l data %d*5,7" % n, "l run"]))
    # degenerate, inverted and NULL ranges over all short sequences of three values
    for mn, mx in (("2", "2"), ("1", "0"), ("0", "0")):
        lines = ["l range %s %s" % (mn, mx)]
        vals = ["-1", "0", "1/2", "1", "2", "3"]
        for n in (1, 2, 3, 4):
            for t in itertools.product(vals, repeat=n):
                lines.append("l data " + ",".join(t))
                lines.append("l run")
        out.append(("deg:%s:%s" % (mn, mx), lines))
    # points barely outside the range: crossing fractions below 1/65536 must still be marked (code 1, not 0)
    lines = ["l range 1 4"]
    eps = ["131071/131072", "1048575/1048576", "4194305/1048576", "524289/131072", "1099511627775/1099511627776"]
    for e in eps:
        for pat in ("%s,4,2", "2,3,%s", "%s,2,%s", "2,%s,2", "%s,%s,2", "0,%s,2,%s,5"):
            lines.append("l data " + pat.replace("%s", e))
            lines.append("l run")
    out.append(("tiny", lines))
    lines = ["l range null", "l data -", "l run", "l data 1", "l run", "l data 1,2,3", "l run", "l range 0 1", "l data -", "l run"]
    out.append(("null", lines))
    # fraction codes
    lines = ["l range 0 1"]
    for v in ["0", "1", "1/2", "1/65536", "65535/65536", "1/131072", "3/131072", "131071/131072", "1/1099511627776",
              "-1/2", "-1/1099511627776", "3/2", "65537/65536", "2", "-0", "1/3", "x", "1/0", "1/-2", "--1", "1//2",
              "32767/65536", "32768/65536", "21845/65536", "43691/131072"]:
        lines.append("l code " + v)
    for kk in range(0, 40):
        lines.append("l code %d/1048576" % (kk * 26215 + kk))
    out.append(("code", lines))
    out.append(("empty", ["l range 0 1", "l empty", "l range null", "l empty", "l range 1 0", "l empty"]))
    # joins at the field limits
    lines = ["l range 0 1"]
    cases = ["3:3:0:0 2:2:0:0", "3:3:7:0 2:2:0:9", "3:3:0:5 2:2:0:0", "3:3:0:0 2:2:4:0", "3:2:0:0 2:2:0:0",
             "3:4:0:0 2:2:0:0", "65535:65535:0:0 0:0:0:0", "65535:65535:0:0 1:0:0:0", "65534:65534:0:0 1:1:0:0",
             "65534:65534:0:0 1:2:0:1", "65534:65534:0:0 2:1:0:0", "0:0:0:0 0:0:0:0", "0:0:0:0 65535:65535:0:65535",
             "1:1:65535:0 1:2:0:65535", "5:5:0:0 7:0:0:0", "5:5:1:0 7:3:0:0", "1:1:0:0 65535:1:0:0",
             "1:1:0:0 1:65535:0:0", "65536:1:0:0 1:1:0:0", "1:1:0 1:1:0:0", "1:1:0:0:0 1:1:0:0", "a:1:0:0 1:1:0:0"]
    for c in cases:
        lines.append("l join " + c)
    out.append(("join", lines))
    return out


def _random(tier, seed, scale):
    out = []
    r = gen.rng(id, tier, seed, "random")
    n = (400 if tier == "quick" else 6000) * scale
    for k in range(n):
        a = r.randrange(-40, 40)
        b = a + r.choice([0, 1, 2, 5, 8, 16, r.randrange(0, 60)])
        kind = r.random()
        if kind < 0.05:
            a, b = b + 1, a
        lines = ["l range null" if kind > 0.97 else "l range %s %s" % (_fmt8(a), _fmt8(b))]
        lo, hi = min(a, b), max(a, b)
        for _ in range(r.choice([3, 6, 10])):
            ln = r.choice([1, 2, 3, 5, 8, 13, 30, 60, r.randrange(1, 120)])
            vals = []
            pool = [lo - 1, lo, hi, hi + 1, (lo + hi) // 2, lo - r.randrange(1, 20), hi + r.randrange(1, 20)]
            cur = r.choice(pool)
            for _i in range(ln):
                x = r.random()
                if x < 0.3:
                    pass                       # equal neighbour
                elif x < 0.6:
                    cur = r.choice(pool)
                elif x < 0.8:
                    cur = r.randrange(lo - 8, hi + 9)
                else:
                    cur = cur + r.choice([-1, 1])
                vals.append(_fmt8(cur))
            lines.append("l data " + ",".join(vals))
            lines.append("l run")
        for _ in range(3):
            d = r.choice([1, 2, 65536, 131072, 1 << 20, 1 << 30])
            lines.append("l code %d/%d" % (r.randrange(-2, d + 3), d))
        for _ in range(3):
            def part():
                raw = r.choice([0, 1, 2, 40, 65535, 32767, 32768, r.randrange(65536)])
                usr = r.choice([raw, raw, raw, min(65535, raw + 1), 0, r.randrange(65536)])
                return "%d:%d:%d:%d" % (raw, usr, r.choice([0, 0, 1, r.randrange(65536)]), r.choice([0, 0, 1, r.randrange(65536)]))
            lines.append("l join %s %s" % (part(), part()))
        out.append(("rnd:%d" % k, lines))
    return out


def _fullprec(tier, seed, scale):
    """general doubles: values and range bounds with full 53-bit mantissas (m / 2^52, exactly representable as
    operands), so the quotient (bound - x0)/(x1 - x0) is rounded by the C code; the stored code must still be the
    code of the exact fraction (the rounding error 2^-52 is far below one unit 2^-16 of the encoding)"""
    out = []
    r = gen.rng(id, tier, seed, "fullprec")
    n = (60 if tier == "quick" else 900) * scale

    def val(lo, hi):
        m = r.randrange(lo, hi)
        return ("-" if m < 0 else "") + "%d/4503599627370496" % abs(m)
    one = 1 << 52
    for k in range(n):
        a = r.randrange(-one, one)
        b = a + r.randrange(1, one)
        lines = ["l range %s %s" % (val(a, a + 1), val(b, b + 1))]
        for _ in range(6):
            ln = r.choice([2, 3, 5, 8, 13, 30])
            vals = []
            for _i in range(ln):
                x = r.random()
                if x < 0.45:
                    vals.append(val(a, b))                      # inside
                elif x < 0.7:
                    vals.append(val(a - one, a))                # below
                elif x < 0.95:
                    vals.append(val(b + 1, b + one))            # above
                else:
                    vals.append(r.choice([val(a, a + 1), val(b, b + 1)]))   # on a bound
            lines.append("l data " + ",".join(vals))
            lines.append("l run")
        out.append(("fp:%d" % k, lines))
    return out


def scripts(tier, seed, scale=1):
    top = 7 if tier == "quick" else 8
    return _exhaustive(top) + _boundary() + _random(tier, seed, scale) + _fullprec(tier, seed, scale)


class _XX:
    """second driver part: the C++ layer (linepart::array::set/apply with its merge path, polyline part views)"""
    id = "C18"
    area = "linepart"
    driver = "drvxx_linepart"
    cxx = True
    fixed_lines = 1
    # the buffers are C objects with a hand-made vtable: UBSan's C++ vptr check cannot accept them
    link_extra = ["-fno-sanitize=vptr"]

    @staticmethod
    def corpus(chk):
        return [(n, s) for n, s in gen.corpus(id) if s and s[0].startswith("xl ")]

    @staticmethod
    def scripts(tier, seed, scale=1):
        out = []
        rg = RANGES[0]
        syms = rg[2:]
        top = 4 if tier == "quick" else 5
        seqs = [t for n in range(1, top + 1) for t in itertools.product(range(5), repeat=n)]
        # one dimension: direct apply (first loop), and set + apply (merge path, as polyline::set does)
        for s0 in range(0, len(seqs), 20):
            lines = ["xl new", "xl range 0 %s %s" % (rg[0], rg[1])]
            for t in seqs[s0:s0 + 20]:
                dat = ",".join(syms[i] for i in t)
                lines += ["xl new", "xl range 0 %s %s" % (rg[0], rg[1]), "xl data 0 " + dat, "xl apply 0", "xl poly",
                          "xl apply 0", "xl new", "xl range 0 %s %s" % (rg[0], rg[1]), "xl data 0 " + dat,
                          "xl set %d" % len(t), "xl apply 0", "xl poly", "xl apply 0"]
            out.append(("xx1:%d" % s0, lines))
        # two dimensions: every pair of sequences of length <= 3 (quick: every 7th pair)
        short = [t for n in range(1, 4) for t in itertools.product(range(5), repeat=n)]
        pairs = [(a, b) for a in short for b in short if len(a) == len(b)]
        if tier == "quick":
            pairs = pairs[::7]
        r2 = RANGES[1]
        for s0 in range(0, len(pairs), 20):
            lines = ["xl new"]
            for a, b in pairs[s0:s0 + 20]:
                lines += ["xl new", "xl range 0 %s %s" % (rg[0], rg[1]), "xl range 1 %s %s" % (r2[0], r2[1]),
                          "xl data 0 " + ",".join(syms[i] for i in a), "xl data 1 " + ",".join(r2[2 + i] for i in b),
                          "xl set %d" % len(a), "xl apply 0", "xl apply 1", "xl poly"]
            out.append(("xx2:%d" % s0, lines))
        # limits
        for n in (65532, 65533, 65534, 65535, 65536, 131066, 131067):
            out.append(("xxlim:%d" % n, ["xl new", "xl set %d" % n, "xl range 0 0 1", "xl data 0 %d*1/2,2,1/2" % (n - 2), "xl apply 0", "xl poly",
                                         "xl range 1 null", "xl data 1 %d*7" % n, "xl apply 1"]))
        # the transformations the library ships: layout::graph::transform3 (limits) and the default
        # transform::part(); one-point remainders (length 1, 65535k+1, and 65533k+1 behind set) outside the range,
        # lengths around 65535/65536 without limits
        k = 0
        for tr in ("t3", "plain", "double"):
            for n in (1, 2, 65534, 65535, 65536, 65537, 131070, 131071, 131072):
                for last in ("2", "-3", "1/2"):
                    dat = ("%d*1/2,%s" % (n - 1, last)) if n > 1 else last
                    out.append(("xxtr:%d" % k, ["xl new", "xl tr " + tr, "xl range 0 0 1", "xl data 0 " + dat, "xl walk 0", "xl apply 0", "xl poly"]))
                    k += 1
            for n in (1, 65533, 65534, 131066, 131067):
                for last in ("7", "1/2"):
                    dat = ("%d*1/2,%s" % (n - 1, last)) if n > 1 else last
                    out.append(("xxtrs:%d" % k, ["xl new", "xl tr " + tr, "xl range 0 0 1", "xl data 0 " + dat, "xl set %d" % n, "xl apply 0", "xl poly"]))
                    k += 1
        for t in itertools.product(range(5), repeat=3):
            dat = ",".join(syms[i] for i in t)
            out.append(("xxt3:%s" % "".join(map(str, t)), ["xl new", "xl tr t3", "xl range 0 %s %s" % (rg[0], rg[1]), "xl data 0 " + dat, "xl walk 0",
                                                             "xl set 3", "xl apply 0", "xl poly", "xl tr plain", "xl walk 0"]))
        out.append(("xxempty", ["xl new", "xl apply 0", "xl set 0", "xl apply 0", "xl data 0 1,2", "xl apply 0", "xl set 5", "xl apply 0", "xl apply 1",
                                "xl data 1 1,2,3,4,5,6,7", "xl apply 1", "xl poly", "xl apply 3", "xl set x", "xl data 3 1"]))
        # random: up to three dimensions, repeated application
        r = gen.rng(id, tier, seed, "xx-random")
        for k in range((200 if tier == "quick" else 2500) * scale):
            n = r.choice([1, 2, 3, 5, 8, 13, 30, r.randrange(1, 60)])
            lines = ["xl new"]
            for d in range(3):
                a = r.randrange(-20, 20)
                b = a + r.choice([0, 1, 4, 8, 16, r.randrange(0, 40)])
                lines.append("xl range %d null" % d if r.random() < 0.1 else "xl range %d %s %s" % (d, _fmt8(a), _fmt8(b)))
                cur = r.randrange(a - 8, b + 9)
                vals = []
                for _i in range(n):
                    x = r.random()
                    if x < 0.35:
                        pass
                    elif x < 0.7:
                        cur = r.choice([a - 1, a, b, b + 1, (a + b) // 2, a - 9, b + 9])
                    else:
                        cur = cur + r.choice([-1, 1])
                    vals.append(_fmt8(cur))
                lines.append("xl data %d %s" % (d, ",".join(vals)))
            if r.random() < 0.8:
                lines.append("xl set %d" % n)
            for _ in range(r.choice([1, 2, 3, 4])):
                lines.append("xl apply %d" % r.randrange(3))
                if r.random() < 0.5:
                    lines.append("xl poly")
            out.append(("xxrnd:%d" % k, lines))
        # logarithmic limits of layout::graph::transform3: the range gives decades (only decades whose power of
        # ten the C library computes exactly), values on and around the decade bounds
        rlg = gen.rng("C18", tier, seed, "xxlg")
        for k in range(10 if tier == "quick" else 60):
            lo, hi = rlg.choice([(0, 1), (1, 2), (0, 2), (1, 5), (2, 5), (5, 6)])
            pool = [str(10 ** lo), str(10 ** hi), str(10 ** lo * 3), str(10 ** lo) + "/2", str(10 ** hi * 2), str(10 ** lo), str(10 ** hi)]
            lines = ["xl new", "xl tr t3lg", "xl range 0 %d %d" % (lo, hi), "xl range 1 %d/2 %d/2" % (2 * lo + 1, 2 * hi - 1)]
            for _ in range(4):
                n = rlg.choice([1, 2, 3, 5, 8])
                lines += ["xl new", "xl tr t3lg", "xl range 0 %d %d" % (lo, hi), "xl data 0 " + ",".join(rlg.choice(pool) for _ in range(n)),
                          "xl walk 0", "xl apply 0", "xl poly", "xl set %d" % n, "xl apply 0", "xl poly"]
            out.append(("xxlg:%d" % k, lines))
        # polyline::set over value stores (parts for the points, every store applied, points transformed), the
        # reset of all parts, a dimension the transformation lacks, the C++ wrappers of join / code
        r3 = gen.rng("C18", tier, seed, "xxpset")
        for k in range(12 if tier == "quick" else 120):
            lines = ["xl new"]
            nd = r3.choice([1, 2, 3])
            n = r3.choice([1, 2, 3, 5, 9, 17])
            for d in range(nd):
                lines.append("xl range %d %s %s" % (d, rg[0], rg[1]))
                lines.append("xl data %d %s" % (d, ",".join(r3.choice(syms) for _ in range(n))))
            for trk in ("double", "t3", "plain"):
                lines += ["xl tr " + trk, "xl pset %d" % nd]
            # the same polyline object again with data entirely outside the range, then visible data again
            for d in range(nd):
                lines.append("xl data %d %s" % (d, ",".join(r3.choice([syms[0], syms[4]]) for _ in range(n))))
            lines += ["xl tr " + r3.choice(["double", "t3"]), "xl pset %d" % nd]
            for d in range(nd):
                lines.append("xl data %d %s" % (d, ",".join(r3.choice(syms) for _ in range(n))))
            lines += ["xl pset %d" % nd]
            lines += ["xl tr double", "xl set %d" % n, "xl apply 0", "xl reset", "xl apply 0", "xl applybad", "xl poly"]
            out.append(("xxpset:%d" % k, lines))
        # dimensions of different lengths: the shorter one ends inside a part of the longer one
        for k in range(16 if tier == "quick" else 160):
            n = r3.choice([2, 3, 4, 6, 9])
            m = r3.choice([1, 1, 2, max(1, n - 1), n + 1, n + 3])
            lines = ["xl new", "xl range 0 %s %s" % (rg[0], rg[1]), "xl range 1 %s %s" % (rg[0], rg[1]),
                     "xl data 0 " + ",".join(r3.choice(syms) for _ in range(n)), "xl data 1 " + ",".join(r3.choice(syms) for _ in range(m)),
                     "xl set %d" % n, "xl apply 0", "xl poly", "xl apply 1", "xl poly", "xl apply 0", "xl poly"]
            out.append(("xxshort:%d" % k, lines))
        # a shorter dimension that ends inside (or at the end of) a part without drawn points, more parts behind it
        for k in range(12 if tier == "quick" else 60):
            hid = r3.choice([2, 3, 4])
            vis = r3.choice([2, 3])
            m = r3.choice([1, hid - 1, hid, hid])
            d0 = [r3.choice([syms[0], syms[4]]) for _ in range(hid)] + [syms[2]] * vis + [r3.choice(syms) for _ in range(r3.choice([0, 2]))]
            d1 = [r3.choice([syms[1], syms[2], syms[3]]) for _ in range(m)]
            lines = ["xl new", "xl range 0 %s %s" % (rg[0], rg[1]), "xl range 1 %s %s" % (rg[0], rg[1]), "xl data 0 " + ",".join(d0),
                     "xl data 1 " + ",".join(d1), "xl set %d" % len(d0), "xl apply 0", "xl apply 1", "xl poly", "xl apply 1", "xl poly"]
            out.append(("xxhid:%d" % k, lines))
        # two handles on one part array (a copied polyline): changing one leaves the parts of the other alone
        for k in range(10 if tier == "quick" else 80):
            n = r3.choice([3, 5, 8, 12])
            dat = [r3.choice(syms) for _ in range(n)]
            if k % 2 == 0:
                # one part: hidden ... visible ... hidden
                nv = r3.randrange(1, n - 1)
                dat = [syms[0]] + [syms[2]] * nv + [syms[4]] * (n - 1 - nv)
            lines = ["xl new", "xl range 0 %s %s" % (rg[0], rg[1]), "xl data 0 " + ",".join(dat), "xl apply 0", "xl share"]
            for m in (n + 2, n, 1, 70000):
                lines += ["xl set2 %d" % m, "xl dump", "xl poly", "xl dump2"]
            # (the second handle takes its data from dimension 1, the first one is judged with its own data)
            lines += ["xl range 1 %s %s" % (rg[0], rg[1]), "xl data 1 " + ",".join(r3.choice(syms) for _ in range(n + 2)),
                      "xl set2 %d" % (n + 2), "xl apply2 1", "xl dump", "xl dump2", "xl set2 %d" % n, "xl dump", "xl poly"]
            out.append(("xxshare:%d" % k, lines))
        lines = ["xl new"]
        for c in ["3:3:0:0 2:2:0:0", "3:3:7:0 2:2:0:9", "3:3:0:5 2:2:0:0", "3:2:0:0 2:2:0:0", "65535:65535:0:0 1:0:0:0",
                  "65534:65534:0:0 1:1:0:0", "1:1:65535:0 1:2:0:65535", "5:5:1:0 7:3:0:32768"]:
            lines.append("xl wjoin " + c)
        for v in ["0", "1", "1/2", "1/65536", "1/131072", "65535/65536", "-1/2", "3/2", "21845/65536", "1/3"]:
            lines.append("xl wcode " + v)
        out.append(("xxwrap", lines))
        return out

    nontrivial = staticmethod(lambda script, c_lines: nontrivial(script, c_lines))
    tally = staticmethod(lambda chk, script, c_lines: tally(chk, script, c_lines))
    finding_key = staticmethod(lambda script, res: finding_key(script, res))


extra_parts = [_XX]


def nontrivial(script, c_lines):
    for ln in c_lines:
        if ln.startswith("R joined"):
            return True
        i = ln.find("recs=")
        if i < 0:
            continue
        recs = ln[i + 5:].split(" ", 1)[0]
        if recs == "-":
            continue
        for rec in recs.split(","):
            f = rec.split(":")
            if len(f) == 4 and (f[2] != "0" or f[3] != "0" or f[0] != f[1]):
                return True
    return False


def tally(chk, script, c_lines):
    d = chk.__dict__.setdefault("distribution", {})
    for op in script:
        w = op.split()
        if len(w) > 1:
            d[w[1]] = d.get(w[1], 0) + 1
    for ln in c_lines:
        if ln.startswith("R n="):
            try:
                n = int(ln[4:].split(" ", 1)[0])
            except ValueError:
                continue
            key = "parts=%s" % (n if n < 4 else "4+")
            d[key] = d.get(key, 0) + 1


def finding_key(script, res):
    op = (res.get("op") or "").split()
    return "%s:%s" % (res["kind"], op[1] if len(op) > 1 else "?")
