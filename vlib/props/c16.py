"""C16 — names are stored and compared faithfully at every length."""
import itertools

from .. import gen

id = "C16"
area = "ident"
driver = "drv_ident"
cxx = False
fixed_lines = 1
link_extra = ("-Wl,--wrap=malloc", "-Wl,--wrap=free")
rule = ("scripts = 'i reset' followed by identifier ops (new <size> | alloc <len> | node <len> | set k <hex|rep:hh:n|null> [len] | "
        "copy k <j|null> | cmp k <bytes> [len] | ineq k j | free k | tinit <j|null> | tfini k | setself k off len (name inside the "
        "identifier's own content) | sinit / ninit (static initialisers MPT_IDENTIFIER_INIT / MPT_NODE_INIT in exact-size blocks) | setfail k name [len] "
        "(set while malloc fails) | tfiniset k name [len] (traits fini, then set on the same storage without a new init) | locate k pos name / next k name (mpt_node_locate/mpt_node_next over the list of node identifiers)); "
        "second part: the C++ class mpt::identifier (xi new/copyctor/set/assign/equal/name/free) and the item containers built on it "
        "(xi gappend j = item_group::append(const identifier *, metatype *), xi aappend name [len] = item_array::append: the stored "
        "item's identifier becomes a new slot and is read back; names with zero bytes inside/at the end and zero-filled charset-0 content); stream 1 = every triple "
        "(storage size in {16,17,20,32,64,128,256,300, identifier_new, node_new}, old length, new length in "
        "{0,1,max-2,max-1,max,max+1,300,65534,65535(,65536)}) x {set, copy from a second identifier of every other size, "
        "zero-pointer set} x compare/inequal/free; stream 2 = every history of length <= 4 (quick: 3, plus 4 over a reduced "
        "alphabet) over two identifiers (16 and 32 bytes) and 20 ops; stream 3 = random histories over up to 6 identifiers; "
        "non-trivial = an identifier switched between inline and allocated content (either direction) in the code's output, "
        "per distinct script")
assumptions = [
    "malloc fails only where the op setfail says so (mpt_identifier_set); identifier storage is at least sizeof(struct identifier) = 16 bytes (LP64) and is released by the harness after mpt_identifier_set(id,0,0) (what the C++ destructor and mpt_node_destroy do)",
    "the caller's name buffer holds at least len bytes (and a terminating zero for len = -1)",
    "leaks are observed by wrapping malloc/free at link time and attributing library allocations to the identifier operated on; memory errors by ASan/UBSan",
    "mpt_identifier_compare with a zero name pointer is outside the property (the spec accepts any verdict there)",
]
trusted = ["the spec column of the driver is Vals.step / setVal / cmpEq / nameOf of Spec/Ident.lean on Op.abs (Impl/IdentAbs.lean): the functions the refinement theorems are about",
           "hand-written model MptModel/Impl/Ident.lean tied to mptcore/misc/identifier.c, node/node_new.c by harness/drv_ident.c",
           "mpt++/identifier.cpp is exercised as a second driver part against the same model (its methods are the C functions on this); "
           "item_group::append / item_array::append (mpt++/item_group.cpp, mptcore/array.h) are driven as 'new 24-byte identifier, then copy / set' "
           "of the same model (array.cpp and item_group.cpp are compiled into the driver translation unit with -fno-sanitize=vptr)"]


def corpus(chk):
    return [(n, s) for n, s in gen.corpus(id) if s and s[0].startswith("i ")]


def _data(n, base=0x61):
    """n bytes of text without a zero byte"""
    if n == 0:
        return "-"
    if n <= 24:
        return gen.hexs([(base + i) % 0x5a + 0x21 for i in range(n)])
    return "rep:%02x:%d" % (base, n)


def _cap(kind):
    """inline capacity (_max) of a storage kind"""
    if kind[0] == "new":
        return min(kind[1] - 4, 252)
    if kind[0] == "alloc":
        ln = kind[1] + 4
        size = 32
        if 32 < ln <= 256:
            while size < ln:
                size *= 2
        return min(size - 4, 252)
    ln = kind[1] + 40
    size = 64
    if 64 < ln <= 256:
        while size < ln:
            size *= 2
    return size - 40 - 4


KINDS = [("new", 16), ("new", 17), ("new", 20), ("new", 32), ("new", 64), ("new", 128), ("new", 256), ("new", 300),
         ("alloc", 0), ("alloc", 29), ("alloc", 100), ("alloc", 252), ("alloc", 253), ("alloc", 65535),
         ("node", 0), ("node", 25), ("node", 100), ("node", 216), ("node", 217)]


BIG_KINDS_QUICK = [("new", 16), ("new", 256)]


def _lens(mx):
    return sorted({0, 1, 4, 5, 8, max(0, mx - 2), mx - 1, mx, mx + 1, 300})


def _triples(tier):
    out = []
    others = [("new", 16), ("new", 32), ("new", 256)]
    for kind in KINDS:
        mx = _cap(kind)
        mk = "i %s %d" % kind
        small = _lens(mx)
        if tier == "quick":
            big_old = [65534] if kind in BIG_KINDS_QUICK else []
            big_new = [65534, 65535, 65536] if kind in BIG_KINDS_QUICK else []
            if kind == ("new", 256):
                small_for_big = [0, mx - 1, mx + 1]
            else:
                small_for_big = None
        else:
            big_old = [65533, 65534, 65535]
            big_new = [65533, 65534, 65535, 65536]
        pairs = [(o, n) for o in small + big_old for n in small + big_new]
        if tier == "quick" and kind in BIG_KINDS_QUICK and kind != ("new", 16):
            # long contents against a few short ones only
            pairs = [(o, n) for (o, n) in pairs if (o <= 1000 and n <= 1000) or (o in small_for_big or n in small_for_big)]
        if tier == "quick":
            # two long contents in one script only for the smallest storage
            pairs = [(o, n) for (o, n) in pairs if not (o > 1000 and n > 1000) or kind == ("new", 16)]
        for old, new in pairs:
            nd = _data(new, 0x62)
            base = ["i reset", mk, "i set 0 %s" % _data(old)]
            long_ = old > 1000 or new > 1000
            # by set
            out.append(("t:set:%s%d:%d:%d" % (kind[0], kind[1], old, new),
                        base + ["i set 0 %s" % nd, "i cmp 0 %s" % nd, "i cmp 0 %s" % _data(new, 0x63), "i cmp 0 %s" % _data(max(0, new - 1), 0x62)]
                        + ([] if long_ else ["i set 0 %s -1" % nd])
                        # the same name as a slice of a longer buffer (the byte behind it is not a terminator)
                        + (["i cmp 0 %s2e7375 %d" % (nd if nd != "-" else "", new), "i set 0 %s2e7375 %d" % (nd if nd != "-" else "", new),
                            "i cmp 0 %s" % nd] if new <= 24 else [])
                        + ["i free 0"]))
            # zero-pointer set
            out.append(("t:null:%s%d:%d:%d" % (kind[0], kind[1], old, new),
                        base + ["i set 0 null %d" % new, "i cmp 0 null %d" % max(0, new - 1), "i cmp 0 %s" % _data(min(new, 30), 0), "i free 0"]))
            # by copy from another identifier of a different size
            for o in others if (tier != "quick" or (kind[0] == "new" and not long_)) else others[:1]:
                out.append(("t:copy:%s%d:%s%d:%d:%d" % (kind[0], kind[1], o[0], o[1], old, new),
                            base + ["i %s %d" % o, "i set 1 %s" % nd, "i copy 0 1", "i ineq 0 1", "i ineq 1 0", "i cmp 0 %s" % nd]
                            + ([] if long_ else ["i cmp 1 %s" % nd, "i set 1 %s" % _data(3, 0x70), "i cmp 0 %s" % nd])
                            + ["i free 1", "i cmp 0 %s" % nd, "i free 0"]))
    return out


def _alphabet():
    return ["i set 0 616263", "i set 0 %s" % _data(11), "i set 0 %s" % _data(12), "i set 0 %s" % _data(40), "i set 0 -",
            "i set 0 null 0", "i set 0 null 5", "i set 0 null 13", "i set 1 %s" % _data(27, 0x41), "i set 1 %s" % _data(28, 0x41), "i set 1 6162",
            "i copy 0 1", "i copy 1 0", "i copy 0 0", "i copy 0 null", "i tinit 0", "i tinit 1", "i tinit null",
            "i cmp 0 616263", "i ineq 0 1"]


def _small():
    return ["i set 0 616263", "i set 0 %s" % _data(12), "i set 0 %s" % _data(40), "i set 0 null 7", "i set 1 %s" % _data(28, 0x41), "i set 1 616263",
            "i copy 0 1", "i copy 1 0", "i copy 0 0", "i tinit 0", "i ineq 0 1"]


def _self_and_nodes(tier):
    """names taken from the identifier's own content (overlapping copy), and node list searches by name"""
    out = []
    for kind in (("new", 16), ("new", 32), ("new", 64), ("node", 0), ("alloc", 100)):
        mx = _cap(kind)
        for ln in sorted({1, 2, 5, 8, 9, mx - 2, mx - 1, mx, mx + 1, mx + 9, 300}):
            if ln < 1:
                continue
            for off in sorted({0, 1, 2, 4, 7, ln // 2, ln - 1, ln}):
                for take in sorted({0, 1, ln - off - 1, ln - off, ln + 1 - off}):
                    if take < 0 or off > ln:
                        continue
                    out.append(("self:%s%d:%d:%d:%d" % (kind[0], kind[1], ln, off, take),
                                ["i reset", "i %s %d" % kind, "i set 0 %s" % _data(ln), "i setself 0 %d %d" % (off, take),
                                 "i setself 0 0 %d" % max(0, take - 1), "i free 0"]))
    # node lists: short/long/equal/prefix names; every start and position form
    late = "61" * 99 + "62"      # as long as rep:61:100, differs in the last byte only
    mid = "61" * 30 + "7a" + "61" * 69
    names = [_data(3), _data(19), _data(20), _data(21), "rep:61:100", "rep:61:101", _data(3), late, "-"]
    lines = ["i reset"] + ["i node %d" % n for n in (0, 0, 30, 100, 0, 217, 0, 0, 0)]
    lines += ["i set %d %s" % (k, nm) for k, nm in enumerate(names)]
    probes = sorted(set(names)) + [_data(2), "rep:61:99", "rep:62:100", "6100", mid, "rep:61:100"]
    def _hexof(d):
        if d == "-":
            return ""
        if d.startswith("rep:"):
            _, hh, n = d.split(":")
            return hh * int(n)
        return d
    setup = list(lines)
    slice_lines = list(setup)
    for start in range(9):
        for pos in (1, 2, 3, 0, -1, -2):
            for pr in probes:
                if tier == "quick" and (start * 7 + pos + len(pr)) % 3:
                    continue
                # the name in a block of exactly its size (nothing readable behind it) ...
                lines.append("i locate %d %d %s" % (start, pos, pr))
                # ... and (own script) as a slice of a longer buffer ("name.sub/xy"): the byte behind it is no terminator
                hx = _hexof(pr)
                if len(hx) <= 400:
                    slice_lines.append("i locate %d %d %s2e7375622f7879 %d" % (start, pos, hx, len(hx) // 2))
        for pr in probes + ["null"]:
            lines.append("i next %d %s" % (start, pr))
    slice_lines += ["i free %d" % k for k in range(9)]
    out.append(("nodes:slice", slice_lines))
    lines += ["i set 3 null 100", "i locate 0 1 rep:00:99", "i locate 0 1 rep:00:100", "i set 1 null 1", "i next 0 -", "i locate 0 1 -", "i locate 0 1 00",
              "i set 1 -", "i next 0 -", "i locate 0 1 -", "i free 4", "i locate 0 2 rep:61:100", "i locate 8 -1 %s" % _data(3),
              "i locate 0 1 616263 2", "i locate 9 1 61", "i locate 0 21 61", "i locate 0 -0 61", "i locate 0 1 null", "i next 0", "i new 16", "i locate 9 1 61"]
    lines += ["i free %d" % k for k in (0, 1, 2, 3, 5, 6, 7, 8, 9)]
    out.append(("nodes:list", lines))
    return out


class _XX:
    """second part: the C++ class mpt::identifier (mpt++/identifier.cpp) through harness/drvxx_ident.cpp"""
    id = "C16"
    area = "ident"
    driver = "drvxx_ident"
    cxx = True
    fixed_lines = 1
    link_extra = ("-Wl,--wrap=malloc", "-Wl,--wrap=free", "-fno-sanitize=vptr")

    @staticmethod
    def corpus(chk):
        return [(n, s) for n, s in gen.corpus(id) if s and s[0].startswith("xi ")]

    @staticmethod
    def scripts(tier, seed, scale=1):
        out = []
        sizes = [16, 17, 32, 64, 256, 300]
        for size in sizes:
            mx = min(size - 4, 252)
            lens = sorted({0, 1, 5, 9, mx - 1, mx, mx + 1, 300}) + ([65534, 65535] if size == 16 or (size == 256 and tier != "quick") else [])
            for old in lens:
                for new in lens:
                    if tier == "quick" and old > 1000 and new > 1000 and size != 16:
                        continue
                    nd = _data(new, 0x62)
                    out.append(("xx:set:%d:%d:%d" % (size, old, new),
                                ["xi reset", "xi new %d" % size, "xi set 0 %s" % _data(old), "xi name 0", "xi set 0 %s" % nd, "xi name 0",
                                 "xi equal 0 %s" % nd, "xi equal 0 %s" % _data(new, 0x63), "xi equal 0 %s" % _data(max(0, new - 1), 0x62),
                                 "xi set 0 null %d" % min(new, 65535), "xi name 0", "xi free 0"]))
                    if new <= 1000 or size == 16:
                        out.append(("xx:copy:%d:%d:%d" % (size, old, new),
                                    ["xi reset", "xi new %d" % size, "xi new 40", "xi set 0 %s" % _data(old), "xi set 1 %s" % nd, "xi assign 0 1",
                                     "xi equal 0 %s" % nd, "xi copyctor 0", "xi copyctor 1", "xi name 2", "xi assign 1 2", "xi assign 2 2", "xi assign 3 0",
                                     "xi set 1 %s" % _data(2, 0x70), "xi equal 2 %s" % nd, "xi free 1", "xi free 0", "xi name 3", "xi free 2", "xi free 3"]))
        # item_group::append(const identifier *, metatype *) / item_array::append(T *, name, len): the item stored gets a
        # copy of the identifier / the name; names with zero bytes inside or at the end, zero-filled (charset 0) content,
        # lengths around the inline limits of the source (12, 28, 60) and of the item (20)
        names = ["-", "61", "6162006364", "7461696c00", "00", "0000", "006100", _data(11), _data(12), _data(13), _data(19), _data(20), _data(21),
                 _data(5) + "00" + _data(5)[:10], "78" * 30 + "00" + "79" * 30, _data(100), _data(300), "c3b6c39f", "ff80",
                 "61" * 18 + "00", "61" * 19 + "00", "61" * 10 + "00", "61" * 11 + "00"]
        for size in (16, 32, 64):
            for nm in names:
                n = len(nm) // 2 if nm != "-" and not nm.startswith("rep:") else (0 if nm == "-" else int(nm.split(":")[2]))
                out.append(("xx:group:%d:%s" % (size, nm[:24]),
                            ["xi reset", "xi new %d" % size, "xi set 0 %s %d" % (nm, n), "xi gappend 0", "xi name 1", "xi equal 1 %s %d" % (nm, n),
                             "xi set 0 %s" % _data(3, 0x70), "xi equal 1 %s %d" % (nm, n), "xi gappend 1", "xi assign 0 2", "xi free 1", "xi name 2",
                             "xi aappend %s %d" % (nm, n), "xi aappend %s -1" % nm, "xi name 3", "xi gappend 3", "xi gappend 4",
                             "xi free 2", "xi free 0", "xi free 3", "xi free 4", "xi free 5", "xi free 6"]))
            for ln in (0, 1, 5, 11, 12, 13, 19, 20, 21, 28, 29, 100, 65535):
                out.append(("xx:groupraw:%d:%d" % (size, ln),
                            ["xi reset", "xi new %d" % size, "xi set 0 null %d" % ln, "xi gappend 0", "xi name 1", "xi equal 1 %s" % _data(min(ln, 40)),
                             "xi copyctor 1", "xi gappend 2", "xi free 1", "xi free 0", "xi free 3", "xi free 2"]))
        out.append(("xx:group:refused", ["xi reset", "xi aappend rep:61:65535", "xi aappend rep:61:65534", "xi aappend rep:61:70000", "xi aappend null 3",
                                         "xi gappend 0", "xi gappend 5", "xi gappend", "xi free 0", "xi free 1", "xi aappend - 0", "xi free 2"]))
        # stand-alone item<T>: default and copy construction, assignment in every combination, names around the inline
        # limits of the 16-byte base (12) and of the item (20)
        for a in (0, 5, 11, 12, 13, 17, 19, 20, 21, 40):
            for b in (0, 11, 12, 13, 18, 19, 20, 21, 40):
                out.append(("xx:item:%d:%d" % (a, b),
                            ["xi reset", "xi inew", "xi inew", "xi set 1 %s" % _data(a), "xi icopy 1", "xi set 2 %s" % _data(b, 0x41), "xi iassign 0 2", "xi name 0",
                             "xi iassign 2 1", "xi name 2", "xi icopy 0", "xi iassign 1 3", "xi iassign 3 3", "xi name 1", "xi set 0 %s" % _data(b, 0x70), "xi iassign 3 0",
                             "xi name 3", "xi free 0", "xi free 1", "xi free 2", "xi free 3"]))
        # item names in a group across removals (array compaction): every removal order of up to 3 of 5 items
        for lens in ("30,1,33,1,16", "20,21,19,12,13", "5,40,5,40,5", "300,0,21,20,3000", "1,2,3,4,5"):
            for order in itertools.permutations(range(5), 3):
                out.append(("xx:gclear:%s:%s" % (lens, "".join(map(str, order))), ["xi reset", "xi gclear %s %s" % (lens, ",".join(map(str, order)))]))
            out.append(("xx:gclear:%s:all" % lens, ["xi reset", "xi gclear %s 0,1,2,3,4" % lens, "xi gclear %s -" % lens, "xi gclear %s 4" % lens, "xi gclear %s 3,4,2,1" % lens]))
        out.append(("xx:badop", ["xi reset", "xi new 15", "xi new 16", "xi copyctor 1", "xi copyctor null", "xi assign 0 null", "xi assign 0 1", "xi name 1",
                                 "xi equal 0 null", "xi set 0 null", "xi frob", "xi free 0", "xi name 0"]))
        r = gen.rng(id, tier, seed, "xx-random")
        for k in range((150 if tier == "quick" else 2500) * scale):
            lines = ["xi reset"]
            caps = []
            for _ in range(r.choice([1, 2, 3])):
                sz = r.choice(sizes)
                lines.append("xi new %d" % sz)
                caps.append(min(sz - 4, 252))
            live = list(range(len(caps)))
            for _ in range(r.choice([5, 12, 25])):
                if not live:
                    break
                a = r.choice(live)
                mx = caps[a]
                ln = max(0, r.choice([0, 1, 4, 5, 9, mx - 1, mx, mx + 1, mx + 8, 300, r.randrange(400)]))
                kind = r.choice(["set", "set", "null", "assign", "assign", "copyctor", "equal", "name", "free", "gappend", "aappend", "setz"])
                if kind == "set":
                    lines.append("xi set %d %s%s" % (a, _data(ln, r.choice([0x61, 0x62])), r.choice(["", "", " -1"])))
                elif kind == "null":
                    lines.append("xi set %d null %d" % (a, r.choice([0, 0, ln])))
                elif kind == "setz":
                    # a name with a zero byte inside / at the end
                    z = r.choice([1, 4, 11, 12, 19, 20, ln % 60])
                    lines.append("xi set %d %s" % (a, "61" * z + "00" + "62" * r.choice([0, 0, 1, 7, 20])))
                elif kind == "gappend":
                    if len(caps) < 12:
                        lines.append("xi gappend %d" % a)
                        live.append(len(caps))
                        caps.append(20)
                elif kind == "aappend":
                    if len(caps) < 12 and ln < 65535:
                        lines.append("xi aappend %s%s" % (_data(ln, 0x63), r.choice(["", " -1", " %d" % (ln // 2)])))
                        live.append(len(caps))
                        caps.append(20)
                elif kind == "assign":
                    lines.append("xi assign %d %d" % (a, r.choice(live)))
                elif kind == "copyctor":
                    if len(caps) < 12:
                        lines.append("xi copyctor %d" % a)
                        live.append(len(caps))
                        caps.append(12)
                elif kind == "equal":
                    lines.append("xi equal %d %s" % (a, _data(ln, r.choice([0x61, 0x62]))))
                elif kind == "name":
                    lines.append("xi name %d" % a)
                elif len(live) > 1:
                    lines.append("xi free %d" % a)
                    live.remove(a)
            for a in live:
                lines.append("xi free %d" % a)
            out.append(("xxrnd:%d" % k, lines))
        return out

    nontrivial = staticmethod(lambda script, c_lines: nontrivial(script, c_lines))
    tally = staticmethod(lambda chk, script, c_lines: tally(chk, script, c_lines))
    finding_key = staticmethod(lambda script, res: finding_key(script, res))


extra_parts = [_XX]


def _static_and_nomem():
    """identifiers made with the static initialisers (exact-size blocks), and set while malloc fails"""
    out = []
    lens = [0, 1, 4, 5, 10, 11, 12, 13, 14, 15, 16, 17, 20, 40]
    for kind in ("sinit", "ninit"):
        for a in lens:
            for b in (0, 11, 12, 13, 16, 40):
                out.append(("static:%s:%d:%d" % (kind, a, b),
                            ["i reset", "i " + kind, "i new 16", "i set 0 %s" % _data(a), "i cmp 0 %s" % _data(a), "i set 0 null %d" % b, "i cmp 0 null %d" % b,
                             "i set 0 %s" % _data(b, 0x62), "i copy 1 0", "i copy 0 1", "i set 0 %s" % _data(a, 0x63), "i ineq 0 1", "i set 0 null 0", "i free 0", "i free 1"]))
    for size in (16, 32, 64):
        mx = size - 4
        for cur in ("-", _data(3), _data(mx - 1), _data(mx + 5), "null 3", "null %d" % (mx + 5)):
            for req in (_data(mx - 1, 0x62), _data(mx, 0x62), _data(mx + 1, 0x62), _data(300, 0x62), "null %d" % mx, "null %d" % (mx + 1), "null 300",
                        "null 65535", "rep:62:65534", "rep:62:65535"):
                probe = cur if not cur.startswith("null") else "null " + cur.split()[1]
                out.append(("nomem:%d:%s:%s" % (size, cur.replace(" ", "_")[:14], req.replace(" ", "_")[:14]),
                            ["i reset", "i new %d" % size, "i new %d" % size, "i set 0 " + cur, "i copy 1 0", "i setfail 0 " + req, "i cmp 0 " + probe,
                             "i ineq 0 1", "i setfail 0 " + req, "i set 0 " + req, "i setfail 0 " + cur, "i ineq 0 1", "i free 0", "i free 1"]))
    return out


def _cmpzero():
    """names with a zero byte inside: comparison with names that agree up to and including the zero byte and differ behind it"""
    out = []
    for size in (16, 32, 64):
        for ln in (2, 3, 5, 11, 12, 13, 27, 28, 29, 40, 300):
            for k in sorted({0, 1, ln // 2, ln - 2}):
                if k < 0 or k >= ln - 1:
                    continue
                name = bytes((0x61 + j % 20) if j != k else 0 for j in range(ln))
                lines = ["i reset", "i new %d" % size, "i new %d" % size, "i set 0 %s %d" % (name.hex(), ln), "i cmp 0 %s %d" % (name.hex(), ln)]
                for d in sorted({k + 1, ln - 1, (k + ln) // 2}):
                    other = bytearray(name)
                    other[d] ^= 0x15
                    lines += ["i cmp 0 %s %d" % (bytes(other).hex(), ln), "i set 1 %s %d" % (bytes(other).hex(), ln), "i ineq 0 1", "i cmp 1 %s %d" % (name.hex(), ln)]
                lines += ["i cmp 0 %s %d" % (name[:k + 1].hex(), k + 1), "i cmp 0 %s -1" % name.hex(), "i free 0", "i free 1"]
                out.append(("cmpzero:%d:%d:%d" % (size, ln, k), lines))
    return out


def _fini_reuse():
    """an identifier ended through the traits' fini whose storage is used again without a new init"""
    out = []
    for size in (16, 32, 64):
        mx = size - 4
        for cur in ("-", _data(3), _data(mx - 1), _data(mx), _data(mx + 5), "rep:61:300", "null 3", "null %d" % (mx + 5)):
            for nxt in ("-", _data(2, 0x62), _data(mx - 1, 0x62), _data(mx, 0x62), _data(mx + 9, 0x62), "null 0", "null 2", "null %d" % (mx + 1)):
                out.append(("finire:%d:%s:%s" % (size, cur.replace(" ", "_")[:12], nxt.replace(" ", "_")[:12]),
                            ["i reset", "i new %d" % size, "i new %d" % size, "i set 0 " + cur, "i copy 1 0", "i tfiniset 0 " + nxt, "i ineq 0 1", "i copy 1 0",
                             "i tfiniset 0 " + cur, "i tfiniset 0 " + cur, "i ineq 0 1", "i tfini 0", "i free 1"]))
    return out


def _cmpnull():
    """mpt_identifier_compare with a zero name pointer (outside the property: code against model only) and the
    argument checks in front of it"""
    out = []
    for size in (16, 64):
        for content in ("-", "616263", "null 3", "null 0", "null 40", "rep:61:40", "00", "null 1"):
            lines = ["i reset", "i new %d" % size, "i cmp 0 null 0", "i cmp 0 null -1", "i cmp 0 - 0", "i cmp 0 - -1", "i set 0 " + content]
            for n in (0, 1, 2, 3, 4, 39, 40, 41, -1):
                lines.append("i cmp 0 null %d" % n)
            lines += ["i cmp 0 - 0", "i cmp 0 616263 3", "i cmp 0 61626300 -1", "i cmp 0 6162636465 3", "i free 0"]
            out.append(("cmpnull:%d:%s" % (size, content.replace(" ", "_")), lines))
    return out


def _random(tier, seed, scale):
    out = []
    n = (400 if tier == "quick" else 6000) * scale
    r = gen.rng(id, tier, seed, "random")
    for k in range(n):
        lines = ["i reset"]
        caps = []
        for _ in range(r.choice([1, 2, 2, 3, 6])):
            kind = r.choice(KINDS)
            if kind == ("alloc", 65535) and r.random() < 0.5:
                kind = ("alloc", 65536)
                lines.append("i alloc 65536")
                continue
            lines.append("i %s %d" % kind)
            caps.append(_cap(kind))
        if not caps:
            caps = [28]
            lines.append("i alloc 0")
        live = list(range(len(caps)))
        for _ in range(r.choice([4, 10, 25])):
            if not live:
                break
            a = r.choice(live)
            mx = caps[a]
            ln = r.choice([0, 1, 3, 4, 5, 8, 9, mx - 2, mx - 1, mx, mx + 1, mx + 7, 300, r.randrange(0, 400)] * (3 if tier == "quick" else 1) + [65534, 65535])
            ln = max(0, ln)
            kind = r.choice(["set", "set", "set", "setn", "null", "copy", "copy", "copy", "cmp", "cmp", "ineq", "free", "tinit", "tfini", "bad", "self", "loc"])
            if kind == "set":
                if ln <= 24:
                    dat = gen.hexs([r.choice([0x61, 0x62, 0xff, 0x80, 0x20, 0x00 if r.random() < 0.1 else 0x41]) for _ in range(ln)])
                else:
                    dat = _data(ln, r.choice([0x61, 0x7a]))
                lines.append("i set %d %s" % (a, dat))
            elif kind == "setn":
                dat = _data(min(ln, 300), 0x64)
                lines.append("i set %d %s %d" % (a, dat, r.choice([-1, 0, min(ln, 300), min(ln, 300) // 2])))
            elif kind == "null":
                lines.append("i set %d null %d" % (a, r.choice([0, 0, ln, 65535, 65536])))
            elif kind == "self":
                lines.append("i setself %d %d %d" % (a, r.choice([0, 1, 2, 5]), r.choice([0, 1, 3, 8, ln])))
            elif kind == "loc":
                lines.append("i %s" % r.choice(["locate %d 1 %s" % (a, _data(min(ln, 300), 0x61)), "locate %d -1 %s" % (a, _data(min(ln, 300), 0x61)),
                                               "locate %d 0 rep:61:%d" % (a, min(ln, 300)), "next %d rep:61:%d" % (a, min(ln, 300))]))
            elif kind == "copy":
                lines.append("i copy %d %s" % (a, r.choice([str(x) for x in live] + ["null"])))
            elif kind == "cmp":
                lines.append("i cmp %d %s" % (a, _data(min(ln, 400), r.choice([0x61, 0x62]))))
            elif kind == "ineq":
                lines.append("i ineq %d %d" % (a, r.choice(live)))
            elif kind == "free":
                if len(live) > 1 or r.random() < 0.3:
                    lines.append("i free %d" % a)
                    live.remove(a)
            elif kind == "tinit":
                if len(caps) < 12:
                    lines.append("i tinit %s" % r.choice([str(a), "null"]))
                    live.append(len(caps))
                    caps.append(12)
            elif kind == "tfini":
                if r.random() < 0.4:
                    lines.append("i tfini %d" % a)
                    live.remove(a)
            else:
                if r.random() < 0.2:
                    lines.append(r.choice(["i set 9 61", "i set 0 6", "i new 8", "i new 301", "i set 0 null", "i cmp 0 null", "i copy 0", "i frob",
                                           "i set 0 rep:6:3", "i set 0 61 2", "i set 0 61 -2", "i new 016"]))
        for a in live:
            lines.append("i free %d" % a)
        out.append(("rnd:%d" % k, lines))
    return out


def scripts(tier, seed, scale=1):
    out = _triples(tier)
    full = _alphabet()
    pre = ["i reset", "i new 16", "i new 32"]
    post = ["i free 0", "i free 1"]
    top = 2 if tier == "quick" else 3
    for ln in range(1, top + 1):
        for combo in itertools.product(full, repeat=ln):
            out.append(("ex:" + "/".join(c[2:] for c in combo), pre + list(combo) + post))
    small = _small()
    for ln in range(3, (4 if tier == "quick" else 5) + 1):
        for combo in itertools.product(small, repeat=ln):
            out.append(("exs:" + "/".join(c[2:] for c in combo), pre + list(combo) + post))
    out.append(("badop", ["i reset", "i new 15", "i new 301", "i new 016", "i new 16", "i set 1 61", "i set 0 6", "i set 0 null", "i set 0 null -1",
                          "i set 0 61 2", "i set 0 61 -2", "i set 0 rep:6:3", "i set 0 rep:61:200001", "i cmp 0 null", "i copy 0", "i copy 0 1",
                          "i ineq 0 1", "i free 1", "i tinit 1", "i tfini 1", "i alloc 100001", "i node 100001", "q push 00", "i set 0 zero:3",
                          "i set 0 6162 1", "i free 0", "i set 0 61"]))
    out += _self_and_nodes(tier)
    out += _cmpnull()
    out += _fini_reuse()
    out += _cmpzero()
    out += _static_and_nomem()
    out += _random(tier, seed, scale)
    return out


def nontrivial(script, c_lines):
    seen = {}
    for ln in c_lines:
        i = ln.find(" | I ")
        if i < 0:
            continue
        for w in ln[i + 5:].split():
            k, _, v = w.partition("=")
            f = v.split("/")
            if len(f) == 4 and f[2] in ("inl", "ext"):
                if k in seen and seen[k] != f[2]:
                    return True
                seen[k] = f[2]
    return False


def tally(chk, script, c_lines):
    d = chk.__dict__.setdefault("distribution", {})
    for op in script:
        w = op.split()
        k = w[1] if len(w) > 1 else "?"
        d[k] = d.get(k, 0) + 1
    for ln in c_lines:
        if ln.startswith("R refused"):
            d["refused"] = d.get("refused", 0) + 1


def finding_key(script, res):
    op = (res.get("op") or "").split()
    return "%s:%s" % (res["kind"], op[1] if len(op) > 1 else "?")
