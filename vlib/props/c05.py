"""C05 — managed elements in typed buffers are finalised exactly once."""
import os
import re

from .. import build, gen

# harness/drv_elem.c only includes drv_array.c: make the driver cache notice changes of the included file
_w = os.path.join(build.VERIF, "harness", "drv_elem.c")
_a = os.path.join(build.VERIF, "harness", "drv_array.c")
if os.path.getmtime(_a) > os.path.getmtime(_w):
    os.utime(_w)

id = "C05"
area = "elem"
driver = "drv_elem"
cxx = False
fixed_lines = 1
rule = ("scripts = 'a handles n', a set-up building typed buffers whose element traits (harness-owned: init/fini log "
        "creation-order tokens, init fails on the schedule given by 'a oracle <bits>') are m4/m8/n4 (q8: the finaliser of m4 "
        "with 8-byte elements, as a re-typing target), array ops, 'a end'; "
        "the event log and the buffer contents are compared event for event (code = model) and the code's log must be "
        "legal (every destroyed token alive, copy sources alive, live tokens = tokens stored in [0,used) of reachable "
        "buffers after every op, nothing alive after the last handle is dropped). Stream 1 exhaustive: every op of the "
        "pool (set/insert/cut/slice/reserve/detach/reduce/bset/clone/drop at front, middle, end, past-the-end) on "
        "either of 2 handles x 10 set-ups (shared and unshared; four of them buffers whose owner constructed the elements in "
        "place: immutable, immutable shared, no-copy shared, 64 elements so that a set replaces more than 256 bytes of "
        "elements) x 8 constructor-failure schedules (quick: 3 for the latter four), all pairs of a reduced "
        "pool x 4 set-ups x 4 schedules, all triples of a small pool x 2 set-ups x 2 schedules; stream 2: random "
        "histories of length 25 over 3 handles; stream 3: destructor-only element type (f8, as reference_array<T>) in "
        "BufferNoCopy buffers of 1..30 elements (past the first allocation or not), shared or not, every op of a pool on "
        "either handle (incl. cut, slice-extend, set without data, insert behind the end: re-exposed elements must be "
        "empty), all pairs for 4 and 9 elements — BufferNoCopy has to survive every re-allocation and such content is "
        "never duplicated while shared. Third part (harness/drv_refs.c, 'r' lines): the library's own element traits — "
        "arrays of arrays (mpt_array_traits: wrap, push, take an own/other child as new content, set from source "
        "elements, assignment of an element to itself, the whole content written back rotated (2..64 references, beyond the "
        "256 byte save area of mpt_buffer_set), cut, detach, clone, drop; arrays of identifiers (mpt_identifier_traits; set from "
        "sources, private copy, replace, cut, release with names inside the element, at the boundary and on the heap, judged by "
        "name comparison, the sanitizers and the heap count) and arrays of metatype references (mpt_meta_reference_traits with sharable "
        "and single-owner harness instances) plus leaf token arrays: 8 set-ups x 37 ops, all pairs (quick: every third "
        "second op), random histories over 4 handles; after every op the harness checks that buffer and instance "
        "reference counts equal the references that exist, every live token is stored once, nothing is released twice, "
        "nothing is alive or allocated at the end. Fourth part (harness/drvxx_refs.cpp): reference_array<Obj> insert/set/"
        "clear/copy/drop with an object type larger than a pointer, and item_array<Obj>::append with no name, names stored in "
        "the item, on the heap, and names the identifier refuses (the caller keeps its reference then), items giving up their "
        "instance, count() (must equal the instances the harness finds) and compact() (no empty item may remain). Non-trivial = the code's log contains a copy construction or a refused "
        "constructor and a destruction before the final release, counted per distinct script")
assumptions = [
    "byte-level part: element traits are those of the harness (4 and 8 byte elements holding a token; init/fini as in "
    "harness/drv_array.c; f8 = destructor only); reference part: the library's array traits and metatype-reference "
    "traits with harness metatype instances; identifier traits are exercised by a self-contained harness routine without a "
    "model of their own, and so are config item traits (names and children; item values are left to C10); command traits "
    "are not driven here (C11)",
    "the destructor-only harness type f8 treats a zeroed element as an empty reference (its destructor does nothing for "
    "it and the stored-token comparison skips it), as reference_array<T> does",
    "arrays of arrays are built without cycles (a buffer that contains a reference to itself is never released)",
    "source elements handed to mpt_array_set do not live in the target array's own buffer",
    "constructions performed by the harness itself (source elements of a set, elements placed into the region returned "
    "by mpt_array_insert) never fail; only constructor calls made by the library consult the failure schedule",
    "malloc never fails; sizes far below SIZE_MAX",
    "mpt_buffer_set is called with the buffer's own traits or compatible ones (same finaliser and size), as "
    "mpt_array_set/mpt_array_reserve do; its BadType refusal for other traits is not reached",
    "buffer::copy (mpt++/array.cpp; no caller in the tree) is driven on the buffers of reference arrays only (refused "
    "unless the source is empty); buffer::move is neither driven nor modelled (its refusal depends on capacities)",
]
trusted = ["hand-written model MptModel/Impl/Heap.lean (callbacks = harness traits) tied to mptcore/array/*.c by harness/drv_elem.c",
           "C++ part: MptModel/Impl/HeapXX.lean tied to typed_array<Elem>/unique_array<Elem>, buffer::trim/skip, content<T>::set_length "
           "by harness/drvxx_array.cpp (Elem logs tokens in its constructors/destructor; C++ constructors cannot be refused)",
           "reference part: hand-written model MptModel/Impl/Refs.lean (buffers as reference count + element list; sizes and "
           "addresses abstracted) tied to array_clone.c, array_traits.c, meta_reference_traits.c, the detach/insert/cut/set "
           "paths and reference_array<T> by harness/drv_refs.c and harness/drvxx_refs.cpp",
           "legality of the code's callback log and of the reference counts is judged by the harness (live-token table, "
           "instance table, reachability walk in drv_array.c / drv_refs.c / drvxx_refs.cpp); the model's log is judged by the "
           "Lean drivers with the function the theorems are about (Mpt.Heap.replay + live tokens a permutation of the stored "
           "ones, duplicate-free; Driver/Refs.lean: token replay, reference counts, object counts), and both verdicts and "
           "both logs have to agree"]


def corpus(chk):
    return [(n, s) for n, s in gen.corpus(id) if s and s[0].startswith("a ")]


SETUPS = {
    "empty": [],
    "m4x3": ["a reserve h0 0 m4", "a slice h0 0 12"],
    "m4x3-shared": ["a reserve h0 0 m4", "a slice h0 0 12", "a clone h1 h0"],
    "m8x2-shared": ["a reserve h0 0 m8", "a slice h0 0 16", "a clone h1 h0"],
    "m4-full-shared": ["a reserve h0 64 m4", "a slice h0 0 64", "a clone h1 h0"],
    "m4x3-two": ["a reserve h0 0 m4", "a slice h0 0 12", "a reserve h1 0 m4", "a slice h1 0 8"],
    # immutable / no-copy buffers whose owner constructed the elements in place; a long run of elements (the scratch
    # copy of replaced elements leaves the stack buffer of mpt_buffer_set)
    "imm-m4x3": ["a alloc h0 0 1 m4 el:3"],
    "imm-m4x3-shared": ["a alloc h0 0 1 m4 el:3", "a clone h1 h0"],
    "nocopy-m4x3-shared": ["a alloc h0 0 2 m4 el:3", "a clone h1 h0"],
    "m4x64": ["a alloc h0 0 0 m4 el:64", "a insert h0 u zero:40"],
}
ORACLES = ["-", "1", "01", "001", "11", "101", "0001", "011"]


def pool(h, o, level):
    if level == 0:
        return ["a set %s m4 1 zero:4" % h, "a set %s m4 0 el:1" % h, "a cut %s 4 4" % h, "a slice %s u 4" % h,
                "a clone %s %s" % (h, o), "a drop %s" % h, "a detach %s 4" % h, "a insert %s 4 zero:4" % h]
    ops = []
    offs = ["0", "1", "3", "5", "-1", "-9"] if level == 2 else ["0", "1", "3", "5", "-1"]
    for tr, d in (("m4", "zero:4"), ("m4", "zero:8"), ("m4", "el:1"), ("m4", "el:2"), ("n4", "el:1"), ("m8", "zero:8"), ("m8", "el:1"),
                  ("m4", "el:64"), ("m4", "zero:272")):
        for off in (offs if tr == "m4" or level == 2 else ["0", "1"]):
            ops.append("a set %s %s %s %s" % (h, tr, off, d))
    for p in (["0", "4", "u", "u+4", "2", "8"] if level == 2 else ["0", "4", "u", "u+4"]):
        for d in ("zero:4", "zero:8"):
            ops.append("a insert %s %s %s" % (h, p, d))
    for off in ["0", "4", "u", "u+4"] + (["2", "8"] if level == 2 else []):
        for ln in ["0", "4", "8", "u"]:
            ops.append("a cut %s %s %s" % (h, off, ln))
    for off in ["0", "u", "u+4"]:
        for ln in ["0", "4", "8"]:
            ops.append("a slice %s %s %s" % (h, off, ln))
    for n in ["0", "4", "u", "s+4"]:
        for tr in (["m4", "n4", "m8", "q8", "-", "p4"] if level == 2 else ["m4", "n4", "q8", "-"]):
            ops.append("a reserve %s %s %s" % (h, n, tr))
    for n in ["0", "4", "u", "s+4"]:
        ops.append("a detach %s %s" % (h, n))
    ops.append("a reduce %s" % h)
    for p in ["0", "4", "u", "u+4"]:
        for d in ("zero:4", "el:1", "el:2"):
            ops.append("a bset %s %s %s" % (h, p, d))
    ops += ["a clone %s %s" % (h, o), "a drop %s" % h, "a append %s 41" % h]
    return ops


def both(level):
    return pool("h0", "h1", level) + pool("h1", "h0", level)


def _script(setup, oracle, ops, nh=2):
    return ["a handles %d" % nh] + list(setup) + (["a oracle " + oracle] if oracle != "-" else []) + list(ops) + ["a end"]


def random_scripts(tier, seed, scale):
    out = []
    n = (300 if tier == "quick" else 4000) * scale
    r = gen.rng(id, tier, seed, "random")
    hs = ["h0", "h1", "h2"]
    for k in range(n):
        lines = ["a handles 3"]
        for h in hs:
            if r.random() < 0.7:
                tr = r.choice(["m4", "m4", "m4", "m8", "n4"])
                lines.append("a reserve %s %s %s" % (h, r.choice(["0", "0", "64", "100"]), tr))
                lines.append("a slice %s 0 %d" % (h, r.choice([0, 1, 2, 3, 8, 16]) * (8 if tr == "m8" else 4)))
        for _ in range(25):
            h = r.choice(hs)
            o = r.choice([x for x in hs if x != h])
            kind = r.choice(["set", "set", "insert", "cut", "cut", "slice", "reserve", "detach", "reduce", "bset",
                             "clone", "clone", "drop", "oracle", "oracle"])
            pos = lambda: r.choice(["0", "4", "8", "u", "u-4", "u+4", "u-8", "12", "s", "2", str(4 * r.randrange(0, 40))])
            if kind == "set":
                tr = r.choice(["m4", "m4", "m4", "n4", "m8"])
                sz = 8 if tr == "m8" else 4
                d = r.choice(["zero:%d" % (sz * r.choice([0, 1, 1, 2, 3])), "el:%d" % r.choice([0, 1, 1, 2, 3])])
                lines.append("a set %s %s %s %s" % (h, tr, r.choice(["0", "1", "2", "3", "-1", "-2", "-30", "7", "20"]), d))
            elif kind == "insert":
                lines.append("a insert %s %s zero:%d" % (h, pos(), r.choice([0, 4, 8, 12, 16])))
            elif kind == "cut":
                lines.append("a cut %s %s %s" % (h, pos(), r.choice(["0", "4", "8", "u", "u-4", "2"])))
            elif kind == "slice":
                lines.append("a slice %s %s %s" % (h, pos(), r.choice(["0", "4", "8", "16", "s"])))
            elif kind == "reserve":
                lines.append("a reserve %s %s %s" % (h, pos(), r.choice(["m4", "m4", "n4", "m8", "q8", "-", "p4"])))
            elif kind == "detach":
                lines.append("a detach %s %s" % (h, pos()))
            elif kind == "reduce":
                lines.append("a reduce %s" % h)
            elif kind == "bset":
                lines.append("a bset %s %s %s" % (h, pos(), r.choice(["zero:4", "zero:8", "el:1", "el:2", "zero:16"])))
            elif kind == "clone":
                lines.append("a clone %s %s" % (h, o))
            elif kind == "drop":
                lines.append("a drop %s" % h)
            else:
                lines.append("a oracle %s" % r.choice(["-", "1", "01", "001", "0001", "11", "0101", "00001", "1111"]))
        lines.append("a end")
        out.append(("rnd:%d" % k, lines))
    return out


def nocopy_scripts(tier):
    """destructor-only element type f8 (as reference_array<T>; a zeroed element is an empty reference) in BufferNoCopy
    buffers, grown past the first allocation (more than 8 elements) or not, shared or not: a modification through
    either handle must be refused or leave every element owned once; elements exposed again after a cut
    (slice-extend, set without data, insert behind the end) must be empty, not the stale bytes of released ones"""
    out = []
    def ops(h, o):
        return ["a insert %s 0 zero:8" % h, "a insert %s u zero:8" % h, "a insert %s u+8 zero:8" % h, "a detach %s u" % h,
                "a detach %s u+200" % h, "a cut %s 0 8" % h, "a cut %s 8 0" % h, "a cut %s 0 0" % h, "a reserve %s u+8 f8" % h,
                "a reserve %s 400 f8" % h, "a reduce %s" % h, "a slice %s 0 16" % h, "a slice %s u 16" % h, "a slice %s u+8 8" % h,
                "a set %s f8 0 zero:8" % h, "a set %s f8 6 zero:16" % h, "a bset %s u zero:8" % h, "a drop %s" % h, "a clone %s %s" % (h, o),
                # raw bytes pushed behind the elements must be refused (they were never constructed as elements)
                "a append %s fill:8:41" % h, "a append %s fill:16:41" % h]
    pool = ops("h0", "h1") + ops("h1", "h0")
    for n in ((1, 4, 8, 9, 12, 30) if tier == "quick" else (0, 1, 3, 4, 8, 9, 12, 17, 30, 40)):
        for flags in (2, 0) if n in (9, 12) else (2,):
            for shared in (True, False):
                setup = ["a alloc h0 0 %d f8 -" % flags] + ["a insert h0 u zero:8"] * n + (["a clone h1 h0"] if shared else [])
                for a in pool:
                    out.append(("nc1:%d:%d:%s:%s" % (n, flags, shared, a), _script(setup, "-", [a])))
                if n in (4, 9) and flags == 2:
                    for a in pool:
                        for b in pool[::3] if tier == "quick" and n == 9 else pool:
                            out.append(("nc2:%d:%s:%s;%s" % (n, shared, a, b), _script(setup, "-", [a, b])))
    return out


def scripts(tier, seed, scale=1):
    out = []
    full, red, small = both(2), both(1), both(0)
    out += nocopy_scripts(tier)
    for sn, setup in SETUPS.items():
        for orc in (ORACLES[:3] if tier == "quick" and (sn.startswith(("imm-", "nocopy-")) or sn == "m4x64") else ORACLES):
            for op in full:
                out.append(("ex1:%s:%s:%s" % (sn, orc, op), _script(setup, orc, [op])))
    pair_setups = ["m4x3", "m4x3-shared", "m8x2-shared", "m4x3-two"]
    pair_orc = ["-", "1", "01"] if tier == "quick" else ["-", "1", "01", "001", "11", "0001"]
    first = small if tier == "quick" else red[::2]
    for sn in pair_setups:
        for orc in pair_orc:
            # quick: with a failure schedule every second follow-up op (alternating between the two schedules)
            bs = red if tier != "quick" or orc == "-" else red[(0 if orc == "1" else 1)::2]
            for a in first:
                for b in bs:
                    out.append(("ex2:%s:%s:%s;%s" % (sn, orc, a, b), _script(SETUPS[sn], orc, [a, b])))
    for sn in ("m4x3-shared", "m4x3-two"):
        for orc in ((["-", "01"] if sn == "m4x3-shared" else ["-"]) if tier == "quick" else ["-", "1", "01", "001", "0001"]):
            for a in small:
                for b in small:
                    for c in small:
                        out.append(("ex3:%s:%s:%s;%s;%s" % (sn, orc, a, b, c), _script(SETUPS[sn], orc, [a, b, c])))
    out += random_scripts(tier, seed, scale)
    return out


class _XX:
    """second part: typed_array<Elem> / unique_array<Elem> of the C++ layer (Elem logs tokens in its constructors
    and destructor; C++ constructors cannot be refused, so there is no failure schedule here)"""
    id = "C05"
    area = "elem"
    driver = "drvxx_array"
    cxx = True
    fixed_lines = 1
    link_extra = ["-fno-sanitize=vptr"]

    @staticmethod
    def corpus(chk):
        return [(n, s) for n, s in gen.corpus(id) if s and s[0].startswith("x ")]

    @staticmethod
    def scripts(tier, seed, scale=1):
        from . import c04
        return c04._XX.gen(["te", "ue"], tier, seed, scale, id, True)

    @staticmethod
    def nontrivial(script, c_lines):
        return nontrivial(script, c_lines)


class _Refs:
    """third part: buffers whose elements are references, with the library's own element traits — arrays of arrays
    (mpt_array_traits), arrays of metatype references (mpt_meta_reference_traits; harness instances, sharable or
    single-owner) — and leaf arrays of harness tokens; model MptModel/Impl/Refs.lean"""
    id = "C05"
    area = "elem"
    driver = "drv_refs"
    cxx = False
    fixed_lines = 1

    @staticmethod
    def corpus(chk):
        return [(n, s) for n, s in gen.corpus(id) if s and s[0].startswith("r ")
                and not any(" rins " in x or " rset " in x or " iappend " in x or " bcopy " in x for x in s)]

    @staticmethod
    def scripts(tier, seed, scale=1):
        return refs_scripts(tier, seed, scale)

    @staticmethod
    def nontrivial(script, c_lines):
        # a reference was copied or refused and something was released before the end
        copy = rel = False
        for ln in c_lines[:-1]:
            m = _EV.search(ln)
            if not m or m.group(1) == "-":
                continue
            for e in m.group(1).split(","):
                if e[0] in "acn":
                    copy = True
                elif e[0] in "fud":
                    rel = True
        return copy and rel

    @staticmethod
    def finding_key(script, res):
        op = (res.get("op") or "").split()
        return "refs:%s:%s" % (res["kind"], op[1] if len(op) > 1 else "?")


REF_SETUPS = {
    # P -> B -> C(3 tokens): h0 = P (only owner of B, which is the only owner of C)
    "nest3": ["r leaf h0 3", "r wrap h0", "r wrap h0"],
    # same, h1 shares P
    "nest3-shared": ["r leaf h0 3", "r wrap h0", "r wrap h0", "r clone h1 h0"],
    # h0 = [X Y] with X, Y leaf arrays also held by h1, h2
    "two-children": ["r leaf h1 2", "r leaf h2 1", "r push h0 h1", "r push h0 h2"],
    # h0 = [X X]: the same child twice, no other owner
    "twin": ["r leaf h1 2", "r push h0 h1", "r push h0 h1", "r drop h1"],
    # references to two sharable and one single-owner instance, unshared / shared
    "meta": ["r mnew h0 2 1", "r madd h0 0"],
    "meta-shared": ["r mnew h0 2 1", "r madd h0 0", "r clone h1 h0"],
    "meta-solo-shared": ["r mnew h0 2 0", "r clone h1 h0"],
    "meta-two": ["r mnew h0 2 1", "r madd h0 0", "r mnew h1 1 0", "r madd h1 1"],
}


def refs_pool(h, o):
    return ["r take %s 0" % h, "r take %s 1" % h, "r takeo %s %s 0" % (h, o), "r clone %s %s" % (h, o), "r drop %s" % h,
            "r detach %s" % h, "r cut %s 0" % h, "r cut %s 1" % h, "r push %s %s" % (h, o), "r wrap %s" % h,
            "r set %s 0 %s 0 1" % (h, o), "r set %s 1 %s 0 2" % (h, o), "r set %s 2 %s 1 1" % (h, o),
            "r madd %s 1" % h, "r madd %s 0" % h, "r leaf %s 2" % h, "r mnew %s 1 0" % h, "r selfset %s 0" % h, "r selfset %s 2" % h, "r selfrot %s 1" % h]


def refs_scripts(tier, seed, scale=1):
    out = []
    pool = refs_pool("h0", "h1") + refs_pool("h1", "h0") + ["r drop h2", "r clone h2 h0", "r takeo h2 h0 0"]
    for sn, setup in REF_SETUPS.items():
        for a in pool:
            out.append(("rf1:%s:%s" % (sn, a), ["r handles 3"] + setup + [a, "r end"]))
        for a in pool:
            for b in (pool if tier != "quick" else pool[::3]):
                out.append(("rf2:%s:%s;%s" % (sn, a, b), ["r handles 3"] + setup + [a, b, "r end"]))
    # the whole content written back rotated (every new element refers to what a replaced element owns), up to and
    # beyond the 32 references that fit the local save area of mpt_buffer_set; sharable / single-owner, shared or not
    for cnt in ((2, 32, 33, 40, 61) if tier == "quick" else (1, 2, 8, 31, 32, 33, 34, 40, 61, 64)):
        for sh in (1, 0):
            for shared in (False, True):
                su = ["r mnew h0 %d %d" % (cnt, sh)] + (["r clone h1 h0"] if shared else [])
                for k in (0, 1, cnt - 1, 7):
                    for h in ("h0", "h1") if shared else ("h0",):
                        for b in ("r drop h0", "r selfrot %s 1" % h, "r cut %s 0" % h, "r madd %s 1" % h):
                            out.append(("rot:%d:%d:%s:%s:%d;%s" % (cnt, sh, shared, h, k, b),
                                        ["r handles 2"] + su + ["r selfrot %s %d" % (h, k), b, "r end"]))
    # arrays of identifiers (mpt_identifier_traits): names inside the element (up to 11 bytes), at the boundary, on the heap
    for cnt in (0, 1, 8, 9, 10, 11, 12, 13, 14, 27, 28, 255, 300, 1000):
        out.append(("rid:%d" % cnt, ["r handles 1", "r identcheck h0 %d" % cnt, "r leaf h0 2", "r identcheck h0 %d" % cnt, "r end"]))
    # arrays of config items (mpt_config_item_traits): name, children; copies between slots, onto themselves, between buffers
    for cnt in (0, 3, 10, 11, 12, 13, 40, 300):
        out.append(("rcf:%d" % cnt, ["r handles 1", "r cfgcheck h0 %d" % cnt, "r leaf h0 2", "r cfgcheck h0 %d" % cnt, "r end"]))
    r = gen.rng(id, tier, seed, "refs")
    n = (300 if tier == "quick" else 5000) * scale
    hs = ["h0", "h1", "h2", "h3"]
    for k in range(n):
        lines = ["r handles 4"]
        for _ in range(r.randrange(6, 22)):
            h = r.choice(hs)
            o = r.choice([x for x in hs if x != h])
            kind = r.choice(["leaf", "wrap", "push", "push", "take", "takeo", "clone", "clone", "drop", "detach", "cut",
                             "set", "set", "mnew", "madd", "madd", "selfset"])
            if kind == "leaf":
                lines.append("r leaf %s %d" % (h, r.choice([1, 2, 3])))
            elif kind == "wrap":
                lines.append("r wrap %s" % h)
            elif kind == "push":
                lines.append("r push %s %s" % (h, o))
            elif kind == "take":
                lines.append("r take %s %d" % (h, r.choice([0, 0, 1, 2])))
            elif kind == "takeo":
                lines.append("r takeo %s %s %d" % (h, o, r.choice([0, 0, 1, 2])))
            elif kind == "clone":
                lines.append("r clone %s %s" % (h, o))
            elif kind == "drop":
                lines.append("r drop %s" % h)
            elif kind == "detach":
                lines.append("r detach %s" % h)
            elif kind == "cut":
                lines.append("r cut %s %d" % (h, r.choice([0, 0, 1, 2])))
            elif kind == "set":
                lines.append("r set %s %d %s %d %d" % (h, r.choice([0, 0, 1, 2]), o, r.choice([0, 0, 1]), r.choice([1, 1, 2, 3])))
            elif kind == "selfset":
                lines.append("r selfset %s %d" % (h, r.choice([0, 0, 1, 2])))
            elif kind == "mnew":
                lines.append("r mnew %s %d %d" % (h, r.choice([0, 1, 2, 3]), r.choice([0, 1, 1])))
            else:
                lines.append("r madd %s %d" % (h, r.choice([0, 1, 1])))
        lines.append("r end")
        out.append(("rfr:%d" % k, lines))
    return out


class _RefsXX:
    """fourth part: mpt::reference_array<T> (references to counted objects; element type with destructor but without
    copy constructor, BufferNoCopy buffers); model MptModel/Impl/Refs.lean (kind uref)"""
    id = "C05"
    area = "elem"
    driver = "drvxx_refs"
    cxx = True
    fixed_lines = 1
    link_extra = ["-fno-sanitize=vptr"]

    @staticmethod
    def corpus(chk):
        return [(n, s) for n, s in gen.corpus(id) if s and s[0].startswith("r ") and any(" rins " in x or " rset " in x or " iappend " in x or " bcopy " in x for x in s)]

    @staticmethod
    def scripts(tier, seed, scale=1):
        out = []
        setups = {"empty": [], "three": ["r rins h0 0 1", "r rins h0 1 1", "r rins h0 2 0"],
                  "three-shared": ["r rins h0 0 1", "r rins h0 1 1", "r rins h0 2 0", "r rclone h1 h0"],
                  "gap": ["r rins h0 2 1"],
                  "grown-shared": ["r rins h0 %d 1" % k for k in range(10)] + ["r rclone h1 h0"]}
        def ops(h, o):
            return ["r rins %s 0 1" % h, "r rins %s 1 0" % h, "r rins %s -1 1" % h, "r rins %s 5 1" % h, "r rins %s -9 1" % h,
                    "r rset %s 0 1" % h, "r rset %s -1 0" % h, "r rset %s 7 1" % h, "r rclear %s" % h, "r rdrop %s" % h,
                    "r rclone %s %s" % (h, o), "r bcopy %s %s" % (h, o)]
        pool = ops("h0", "h1") + ops("h1", "h0")
        for sn, su in setups.items():
            for a in pool:
                out.append(("ru1:%s:%s" % (sn, a), ["r handles 2"] + su + [a, "r end"]))
                for b in pool:
                    out.append(("ru2:%s:%s;%s" % (sn, a, b), ["r handles 2"] + su + [a, b, "r end"]))
        # item_array<Obj>::append with names the identifier stores locally, on the heap, or refuses (65535 bytes and
        # more with the terminator), unnamed, onto empty / filled / shared arrays
        isetups = {"empty": [], "two": ["r iappend h0 1 3", "r iappend h0 0 -"],
                   "two-shared": ["r iappend h0 1 3", "r iappend h0 0 40", "r rclone h1 h0"],
                   "grown": ["r iappend h0 1 %d" % (k * 7) for k in range(9)],
                   "holes": ["r iappend h0 1 3", "r iappend h0 0 40", "r iappend h0 1 -", "r iappend h0 1 9", "r iclear h0 0", "r iclear h0 2"],
                   "holes-shared": ["r iappend h0 1 3", "r iappend h0 0 40", "r iappend h0 1 -", "r iclear h0 1", "r rclone h1 h0"]}
        def iops(h, o):
            return ["r iappend %s %d %s" % (h, sh, n) for sh in (0, 1) for n in ("-", "0", "27", "28", "300", "65533", "65534", "65535", "65536", "70000")] \
                + ["r rdrop %s" % h, "r rclone %s %s" % (h, o), "r iclear %s 0" % h, "r iclear %s -1" % h, "r iclear %s 5" % h,
                   "r icount %s" % h, "r icompact %s" % h]
        ipool = iops("h0", "h1") + iops("h1", "h0")
        for sn, su in isetups.items():
            for a in ipool:
                out.append(("ri1:%s:%s" % (sn, a), ["r handles 2"] + su + [a, "r end"]))
                for b in (ipool if tier != "quick" else ipool[::3]):
                    out.append(("ri2:%s:%s;%s" % (sn, a, b), ["r handles 2"] + su + [a, b, "r end"]))
        r = gen.rng(id, tier, seed, "refsxx")
        hs = ["h0", "h1", "h2"]
        for k in range((100 if tier == "quick" else 2000) * scale):
            lines = ["r handles 3"]
            for _ in range(r.randrange(5, 25)):
                h = r.choice(hs)
                op = r.choice(["rins", "rins", "rins", "rset", "rclear", "rdrop", "rclone", "rclone"])
                if op == "rclone" and r.random() < 0.25:
                    lines.append("r bcopy %s %s" % (h, r.choice([x for x in hs if x != h])))
                elif op in ("rins", "rset"):
                    lines.append("r %s %s %d %d" % (op, h, r.choice([0, 0, 1, 2, 3, 9, -1, -2, -20]), r.choice([0, 1])))
                elif op == "rclone":
                    lines.append("r rclone %s %s" % (h, r.choice([x for x in hs if x != h])))
                else:
                    lines.append("r %s %s" % (op, h))
            lines.append("r end")
            out.append(("rur:%d" % k, lines))
        return out

    @staticmethod
    def nontrivial(script, c_lines):
        # an object was released before the end while another stayed referenced
        rel = False
        for ln in c_lines[:-1]:
            m = _EV.search(ln)
            if m and m.group(1) != "-" and any(e[0] in "ud" for e in m.group(1).split(",")):
                rel = True
        return rel

    @staticmethod
    def finding_key(script, res):
        op = (res.get("op") or "").split()
        return "refsxx:%s:%s" % (res["kind"], op[1] if len(op) > 1 else "?")


extra_parts = [_XX, _Refs, _RefsXX]

_EV = re.compile(r" ev=(\S+)")


def nontrivial(script, c_lines):
    copy_or_fail = fini = False
    for ln in c_lines[:-1]:
        m = _EV.search(ln)
        if not m or m.group(1) == "-":
            continue
        for e in m.group(1).split(","):
            if e.startswith("c") or e == "x":
                copy_or_fail = True
            elif e.startswith("f"):
                fini = True
    return copy_or_fail and fini


def tally(chk, script, c_lines):
    d = chk.__dict__.setdefault("distribution", {})
    for op in script[1:]:
        k = op.split()[1]
        d[k] = d.get(k, 0) + 1
    for ln in c_lines:
        m = _EV.search(ln)
        if m and m.group(1) != "-":
            for e in m.group(1).split(","):
                k = "ev:" + ("x" if e == "x" else e[0])
                d[k] = d.get(k, 0) + 1


def finding_key(script, res):
    op = (res.get("op") or "").split()
    return "%s:%s" % (res["kind"], op[1] if len(op) > 1 else "?")
