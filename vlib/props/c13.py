"""C13 — ring-buffer queue is a faithful byte deque."""
from .. import gen

id = "C13"
area = "queue"
driver = "drv_queue"
cxx = False
fixed_lines = 1
link_extra = ["-Wl,--wrap=writev"]
rule = ("scripts = 'q new max off fill' followed by queue ops; stream 1 enumerates every state with max<=5 "
        "(all off, all fill lengths) x every op x every operand <= max+1; stream 2 = random histories over "
        "max in {7,64,1500,3000}; non-trivial = a history during which the stored content wrapped around the "
        "end of the storage (off+len>max seen in the code's output), counted per distinct script")
assumptions = [
    "libc memcpy/memmove/memset/realloc behave as specified; realloc never fails in the harness runs",
    "new storage bytes after a growing resize are cleared by the driver (model: zero)",
    "the comparison callback of mpt_queue_find is 'element equals needle'",
]
trusted = ["hand-written model MptModel/Impl/Ring.lean tied to mptcore/queue/*.c by harness/drv_queue.c"]


def corpus(chk):
    return [(n, s) for n, s in gen.corpus(id) if s and s[0].startswith("q ")]


def _fill(n, base=0x61):
    return gen.hexs([(base + i) & 0xff for i in range(n)])


SIZE_MAX = 2 ** 64 - 1


def _ops_for(mx, ln):
    ops = []
    R = range(0, mx + 2)
    for n in R:
        ops.append("q push " + _fill(n, 0x41))
        ops.append("q unshift " + _fill(n, 0x41))
        ops.append("q pop %d" % n)
        ops.append("q pop %d nodst" % n)
        ops.append("q shift %d" % n)
        ops.append("q shift %d nodst" % n)
        ops.append("q align %d" % n)
        ops.append("q resize %d" % n)
        ops.append("q prepare %d" % n)
    ops.append("q push zero:2")
    ops.append("q unshift zero:1")
    for p in R:
        for n in R:
            ops.append("q crop %d %d" % (p, n))
            ops.append("q get %d %d" % (p, n))
            if n <= 2 or p <= 1:
                ops.append("q get %d %d nodst" % (p, n))
            ops.append("q set %d %s" % (p, _fill(n, 0x30)))
    ops.append("q set 1 zero:2")
    ops.append("q string")
    ops.append("q save")
    for k in R:
        ops.append("q save %d" % k)
    for p in R:
        for n in R:
            ops.append("q mget %d %d" % (p, n))
            if n <= 2 or p <= 1:
                ops.append("q mget %d %d novec" % (p, n))
    # size_t overflow guard of mpt_queue_prepare: used size + request (+ pointer size) beyond SIZE_MAX is refused
    # before anything is touched (requests just below the guard would really allocate and are not driven)
    free = mx - ln
    for n in (SIZE_MAX, SIZE_MAX - 7, SIZE_MAX - 8 - mx + free + 1):
        if 0 < n <= SIZE_MAX and n > free:
            ops.append("q prepare %d" % n)
    for n in R:
        for avail in (0, 1, 2, mx, mx + 2):
            ops.append("q load %d %s" % (n, _fill(avail, 0x51)))
    for nd in ("61", "62", "6364", "6263", "65", "6162"):
        ops.append("q find " + nd)
    return ops


def scripts(tier, seed, scale=1):
    out = []
    top = 5 if tier == "quick" else 6
    for mx in range(1, top + 1):
        for off in range(0, mx + 1):
            for ln in range(0, mx + 1):
                new = "q new %d %d %s" % (mx, off, _fill(ln))
                for op in _ops_for(mx, ln):
                    tail = ["q get 0 %d" % ln, "q save"]
                    w = op.split()
                    if w[1] == "prepare" and int(w[2]) <= 2 * mx + 2:
                        # the space reported must really be there: a push of that size has to be accepted
                        tail = ["q push " + _fill(int(w[2]), 0x70)] + tail
                    out.append(("ex:%d/%d/%d:%s" % (mx, off, ln, op), [new, op] + tail))
    # boundary-directed: the block-rotation thresholds of mpt_memrev (1024-byte temporary, both shortcuts) with
    # wrapped content whose two parts lie on either side of them; align / resize / string rotate the storage
    r = gen.rng(id, tier, seed, "memrev")
    sizes = [1, 7, 1023, 1024, 1025, 2047, 2049, 4095, 4096, 4097]
    for pre in sizes:
        for post in sizes:
            if tier == "quick" and (pre + post) % 3 == 1 and pre > 7 and post > 7:
                continue
            for gap in (0, 1, 1500):
                mx = pre + post + gap
                fill = gen.hexs([r.randrange(1, 256) for _ in range(pre + post)])
                new = "q new %d %d %s" % (mx, mx - pre, fill)
                op = r.choice(["q align 0", "q align 0", "q resize %d" % (mx + 8), "q string", "q align %d" % r.randrange(mx + 1),
                               "q prepare %d" % (gap + 1)])
                out.append(("memrev:%d/%d/%d" % (pre, post, gap), [new, op, "q get 0 %d" % (pre + post), "q save"]))
    # random histories
    nrand = (300 if tier == "quick" else 3000) * scale
    r = gen.rng(id, tier, seed, "random")
    for k in range(nrand):
        mx = r.choice([7, 7, 64, 1500, 3000])
        off = r.choice([0, 1, mx - 1, mx, r.randrange(mx + 1)])
        ln = r.choice([0, 1, mx // 2, mx - 1, mx, r.randrange(mx + 1)])
        cur = ln
        lines = ["q new %d %d %s" % (mx, off, gen.hexs([r.randrange(256) for _ in range(ln)]))]
        for _ in range(r.choice([6, 12, 30])):
            free = mx - cur
            kind = r.choice(["push", "push", "unshift", "pop", "shift", "crop", "get", "set", "align", "align0", "resize", "prepare", "find", "string", "load", "save", "mget", "mget", "savek"])
            if kind in ("push", "unshift"):
                n = r.choice([0, 1, free, free + 1, r.randrange(free + 2), min(free, 1100)])
                lines.append("q %s %s" % (kind, gen.hexs([r.randrange(256) for _ in range(n)])))
            elif kind in ("pop", "shift"):
                n = r.choice([0, 1, cur, cur + 1, r.randrange(cur + 2)])
                lines.append("q %s %d%s" % (kind, n, r.choice(["", "", " nodst"])))
            elif kind in ("crop", "get", "set"):
                p = r.choice([0, 1, cur, r.randrange(cur + 2)])
                n = r.choice([0, 1, max(0, cur - p), r.randrange(max(1, cur - p + 2))])
                if kind == "set":
                    lines.append("q set %d %s" % (p, gen.hexs([r.randrange(256) for _ in range(n)])))
                else:
                    lines.append("q %s %d %d" % (kind, p, n))
            elif kind == "align":
                lines.append("q align %d" % r.choice([0, 1, mx - 1, mx, r.randrange(mx + 1)]))
            elif kind == "align0":
                lines.append("q align 0")
            elif kind == "resize":
                lines.append("q resize %d" % r.choice([mx, mx + 1, max(1, cur), max(1, cur - 1), mx * 2, r.randrange(1, 2 * mx)]))
            elif kind == "prepare":
                lines.append("q prepare %d" % r.choice([0, 1, free, free + 1, r.randrange(2 * mx)]))
            elif kind == "find":
                lines.append("q find " + gen.hexs([r.randrange(256) for _ in range(r.choice([1, 1, 2, 3]))]))
            elif kind == "load":
                lines.append("q load %d %s" % (r.choice([0, 1, free, free + 1, r.randrange(free + 2)]),
                                                gen.hexs([r.randrange(256) for _ in range(r.choice([0, 1, free, free + 3, r.randrange(free + 4)]))])))
            elif kind == "save":
                lines.append("q save")
            elif kind == "savek":
                lines.append("q save %d" % r.choice([0, 1, max(0, cur - 1), cur, r.randrange(cur + 2)]))
            elif kind == "mget":
                p = r.choice([0, 1, cur, r.randrange(cur + 2)])
                n = r.choice([0, 1, max(0, cur - p), max(0, cur - p) + 1, r.randrange(max(1, cur - p + 2))])
                lines.append("q mget %d %d%s" % (p, n, r.choice(["", "", " novec"])))
            else:
                lines.append("q string")
            lines.append("q get 0 %d" % r.choice([cur, cur, max(0, cur - 1)]))
            # the generator does not track the exact length after refusals/resizes; re-sync cheaply
            cur = max(0, min(mx, cur))
        out.append(("rnd:%d" % k, lines))
    return out


class _XX:
    """second part: the C++ io::queue wrappers (mpt++/io_queue.cpp) through harness/drvxx_queue.cpp"""
    id = "C13"
    area = "queue"
    driver = "drvxx_queue"
    cxx = True
    fixed_lines = 1

    @staticmethod
    def corpus(chk):
        return [(n, s) for n, s in gen.corpus(id) if s and s[0].startswith(("xq ", "xe "))]

    @staticmethod
    def scripts(tier, seed, scale=1):
        out = []
        # exhaustive: capacities 0 and 8 (the wrapper allocates in multiples of 8), every offset/fill <= 8 (step 2), one op
        for mx in (0, 8):
            for off in range(0, mx + 1, 1 if tier != "quick" else 3):
                for ln in range(0, mx + 1, 1 if tier != "quick" else 2):
                    new = "xq new %d %d %s" % (mx, off, _fill(ln))
                    ops = []
                    for n in (0, 1, 2, 3, mx - ln, mx - ln + 1, 9, 17):
                        if n < 0:
                            continue
                        ops += ["xq push " + _fill(n, 0x41), "xq unshift " + _fill(n, 0x41)]
                        ops += ["xq pop %d" % n, "xq pop %d nodst" % n, "xq shift %d" % n, "xq shift %d nodst" % n, "xq peek %d" % n]
                    ops.append("xq elements")
                    for part in (1, 2, 3):
                        for cnt in (1, 2, 3, 5):
                            ops.append("xq write %d %s" % (part, _fill(part * cnt, 0x30)))
                            ops.append("xq write %d zero:%d" % (part, part * cnt))
                            ops.append("xq read %d %d" % (cnt, part))
                            ops.append("xq read %d %d nodst" % (cnt, part))
                    for op in sorted(set(ops)):
                        out.append(("xx:%d/%d/%d:%s" % (mx, off, ln, op), [new, op, "xq peek 0", "xq read 9 1"]))
        # mpt::encode_queue::trim (mpt++/queue.cpp) on every small ring state: finished data removed at the front,
        # also across the wrap
        for mx in (1, 2, 3, 4, 5, 8):
            for off in range(0, mx + 1):
                for ln in range(0, mx + 1):
                    for n in range(0, ln + 2):
                        out.append(("xe:%d/%d/%d:%d" % (mx, off, ln, n),
                                    ["xe new %d %d %s" % (mx, off, _fill(ln)), "xe trim %d" % n, "xe trim 1", "xe trim 0"]))
        r = gen.rng(id, tier, seed, "xx-random")
        for k in range((150 if tier == "quick" else 1500) * scale):
            mx = r.choice([0, 8, 16, 64])
            off = r.randrange(mx + 1)
            ln = r.randrange(mx + 1)
            lines = ["xq new %d %d %s" % (mx, off, gen.hexs([r.randrange(256) for _ in range(ln)]))]
            for _ in range(r.choice([5, 10, 20])):
                kind = r.choice(["push", "unshift", "pop", "shift", "write", "read", "peek", "elements", "writez", "readn"])
                if kind in ("push", "unshift"):
                    lines.append("xq %s %s" % (kind, gen.hexs([r.randrange(256) for _ in range(r.choice([0, 1, 2, 7, 8, 9, 30]))])))
                elif kind in ("pop", "shift"):
                    lines.append("xq %s %d%s" % (kind, r.choice([0, 1, 2, 5, 9, 40]), r.choice(["", "", " nodst"])))
                elif kind == "write":
                    part = r.choice([1, 2, 4, 5])
                    lines.append("xq write %d %s" % (part, gen.hexs([r.randrange(256) for _ in range(part * r.choice([1, 2, 3, 7]))])))
                elif kind == "read":
                    lines.append("xq read %d %d" % (r.choice([1, 2, 3]), r.choice([1, 2, 4, 5])))
                elif kind == "writez":
                    part = r.choice([1, 2, 4, 5])
                    lines.append("xq write %d zero:%d" % (part, part * r.choice([1, 2, 3, 7])))
                elif kind == "readn":
                    lines.append("xq read %d %d nodst" % (r.choice([1, 2, 3]), r.choice([1, 2, 4, 5])))
                elif kind == "elements":
                    lines.append("xq elements")
                else:
                    lines.append("xq peek %d" % r.choice([0, 1, 3, 9]))
            out.append(("xxrnd:%d" % k, lines))
        return out

    nontrivial = staticmethod(lambda script, c_lines: nontrivial(script, c_lines))
    tally = staticmethod(lambda chk, script, c_lines: tally(chk, script, c_lines))
    finding_key = staticmethod(lambda script, res: finding_key(script, res))


extra_parts = [_XX]


def nontrivial(script, c_lines):
    for ln in c_lines:
        i = ln.find("| I ")
        if i < 0:
            continue
        f = dict(x.split("=", 1) for x in ln[i + 4:].split() if "=" in x)
        try:
            if int(f["off"]) + int(f["len"]) > int(f["max"]) and int(f["len"]) > 0:
                return True
        except (KeyError, ValueError):
            pass
    return False


def tally(chk, script, c_lines):
    d = chk.__dict__.setdefault("distribution", {})
    for op in script[1:]:
        k = op.split()[1]
        d[k] = d.get(k, 0) + 1
    for ln in c_lines:
        if ln.startswith("R refused"):
            d["refused"] = d.get("refused", 0) + 1


def finding_key(script, res):
    op = (res.get("op") or "").split()
    return "%s:%s" % (res["kind"], op[1] if len(op) > 1 else "?")
