"""C17 — fragmented messages read like contiguous ones."""
import itertools
import os

from .. import build
from .. import gen
from .. import run as _run

id = "C17"
area = "message"
driver = "drv_message"
cxx = False
fixed_lines = 1
link_extra = ("-Wl,--wrap=malloc",)
rule = ("scripts = 'm frags <hex>,<hex>,..' (every fragment its own exact-size malloc block) followed by message ops; "
        "stream 1b (exhaustive) = every byte string over {20,0a,5c,27,23,61} (comment end, backslash, quote) up to length 3 x EVERY "
        "composition x up to 2 empty fragments x {tok with 8 (tok,com,esc) sets, argv/args with white-space, newline and "
        "backslash separator, dhash}; long generated messages (1..4000 bytes, thorough up to 150000) contiguous and cut into "
        "parts of 1/7/100/256/300/900 bytes with empty parts through mpt_stream_append on a buffered stream (no encoder / COBS; "
        "also into a message started behind a flushed one: queue offset > 0, remainders 136..159 and up to 700 bytes) and "
        "through mpt::encode_array::push(message) (COBS, COBS/ZPE; 1..40000 bytes, thorough 150000; every cut of short texts "
        "with zero pairs); the NULL-argument guards; "
        "stream 1 (exhaustive) = every byte string over {20,61,00,22,23} up to length 3 x EVERY composition "
        "into fragments x every insertion of up to 2 empty fragments (thorough: also length 4 x every composition x at most "
        "1 empty fragment) x {len; chr/rchr of each letter; str/rstr/fcn/rfcn "
        "with 3 sets; tok with 16 (tok,com,esc) combinations; cpy with every length -1..len+1 into 4 target layouts; "
        "read of every length 0..len+1 with and without target; argv/args with 5 separators; append, also with a failing "
        "allocation}; command messages with command words of 1..4 and 120..135 bytes cut in 9 ways through mpt_dispatch_hash; fragment lists with "
        "empty fragments in every position through mpt_stream_append (COBS stream and newline framing); refused appends: 1-3 fragments of sizes {0,3,61,62,64,65,130,200,2000} onto arrays of 0/2/64/70 bytes with "
        "the 1st/2nd/3rd allocation inside mpt_message_append failing (malloc wrapped); both tiers add a seeded "
        "sample of length 4 with 2 empty fragments, thorough also of length 5;  stream 2 = quoted/escaped/whitespace argument "
        "texts cut at every pair of positions, and every wrapped queue of capacity <= 4 through mpt_message_get; "
        "stream 3 = random op histories on random cuts of longer texts, some malformed ops. "
        "non-trivial = a script in which the cursor had at least 2 non-empty fragments and an op crossed a fragment "
        "boundary (read/copy longer than the first fragment, a search that left the first fragment or searched backwards, "
        "an argument end or whitespace skip beyond the first fragment, length/append/args over several fragments, "
        "a wrapped mpt_message_get), counted per distinct script")
assumptions = [
    "libc memchr/memcpy/strlen/isspace/isgraph (C locale) behave as specified",
    "fragment lengths sum to less than SSIZE_MAX (the EOVERFLOW branches are not modelled)",
    "mpt_array_append/mpt_array_slice/mpt_array_clone behave as a plain growing byte vector (array semantics are property C04); "
    "allocation failure is exercised for the one allocation of mpt_array_message ('m args <sep> nomem') and for every allocation "
    "of mpt_message_append ('m append <prefix> nomem:<k>'), malloc wrapped; the model knows the buffer capacities of "
    "array/buffer_alloc.c (64-byte header, 128-byte granules) to predict which fragment is refused",
    "mpt_memcpy is called with at least one source and one target fragment (with none it returns 0 for every length)",
]
trusted = ["hand-written model MptModel/Impl/Message.lean tied to mptcore/message/*.c, array/array_message.c, event/dispatch_hash.c (up to the "
           "handler lookup), mptio/stream/stream_append.c by harness/drv_message.c and mpt++/array.cpp encode_array::push(message) "
           "by harness/drvxx_message.cpp",
           "mpt_memtok and nextSpace (message_argv.c) are modelled as their own byte loops with the C code's fragment-advance paths "
           "and PROVED equal to the spec's one-pass scan; the per-character rules themselves (Spec/Flat.lean tokStep) are read off "
           "the C code, their agreement on one fragment is correspondence evidence",
           "the push functions below the fragment walkers (mpt_stream_push, mpt_queue_push, mpt_array_push and the encoders) are "
           "modelled as 'takes 1..n of the n bytes offered' (any schedule); that the bytes taken arrive unchanged is tied by the "
           "long-message runs (digest of what reaches the file / the decoded array content), not modelled",
           "harness: plain COBS decoder, FNV-1a digest and the byte generator of harness/drv_biggen.h (same functions in Driver/Message.lean)"]

ALPHA = [0x20, 0x61, 0x00, 0x22, 0x23]
SEPS = ["00", "20", "61", "23", "22"]
SETS = ["-", "2061", "0023"]
TOKS = [(t, c, e) for t in ("null", "-", "20", "61") for c in ("null", "23") for e in ("null", "22")]


def corpus(chk):
    return [(n, sc) for n, sc in gen.corpus(id) if not (sc and sc[0].startswith("xm "))]


def compositions(n):
    """all ways to cut n into positive parts"""
    if n == 0:
        yield []
        return
    for mask in range(1 << (n - 1)):
        parts, cur = [], 1
        for i in range(n - 1):
            if mask >> i & 1:
                parts.append(cur)
                cur = 1
            else:
                cur += 1
        parts.append(cur)
        yield parts


def with_empties(parts, maxe=2):
    """insert up to maxe zero-length parts at every combination of gaps (at least one fragment results)"""
    k = len(parts)
    for ne in range(0, maxe + 1):
        for gaps in itertools.combinations_with_replacement(range(k + 1), ne):
            out = []
            for g in range(k + 1):
                out.extend([0] * gaps.count(g))
                if g < k:
                    out.append(parts[g])
            if out:
                yield out


def cut(data, sizes):
    out, p = [], 0
    for s in sizes:
        out.append(gen.hexs(data[p:p + s]))
        p += s
    return ",".join(out)


def fraglists(data, maxe=2):
    """(name, 'hex,hex,..') for every composition with up to maxe empty fragments inserted"""
    for parts in compositions(len(data)):
        for sizes in with_empties(parts, maxe):
            yield gen.hexs(data) + "/" + "x".join(map(str, sizes)), cut(data, sizes)


def groups(frags, n):
    """op groups for one fragment list of total length n: list of (tag, [ops]) — each becomes one script"""
    f = "m frags " + frags
    search = [f, "m len"]
    for b in ALPHA:
        search += ["m chr %02x" % b, "m rchr %02x" % b]
    for s in SETS:
        search += ["m str " + s, "m rstr " + s, "m fcn " + s, "m rfcn " + s]
    search += ["m append -", "m append 7a", "m append - nomem:1", "m append - nomem:2", "m append 7a nomem:1",
               "m sappend cobs", "m sappend nl", "m dhash"]
    tok = [f] + ["m tok %s %s %s" % t for t in TOKS]
    cpy = [f]
    for k in range(-1, n + 2):
        for d in ("5", "1,0,1,0,3", "2,2", "0"):
            cpy.append("m cpy %d %s" % (k, d))
    rd = []
    for k in range(0, n + 2):
        rd += [f, "m read %d" % k, "m len", "m read 1 nodst", "m chr 61"]
        if k <= 2:
            rd += [f, "m read %d nodst" % k, "m read %d" % (n + 1)]
    av = []
    for s in SEPS:
        if s == "20":
            continue
        av += [f, "m argv " + s, "m read 1", "m argv " + s, "m len", f, "m args " + s]
    # the white-space separator (quote scanner) gets scripts of its own
    return [("s", search), ("t", tok), ("c", cpy), ("r", rd), ("a", av),
            ("a20", [f, "m argv 20", "m read 1", "m argv 20", "m len"]), ("A20", [f, "m args 20", "m args 20 nomem", "m args 00 nomem"])]


# second exhaustive alphabet: comment end (newline), backslash before a quote, single quote — the characters that
# drive the two fragment-advance paths of mpt_memtok (main loop / comment skip) and nextSpace of message_argv.c
ALPHA2 = [0x20, 0x0a, 0x5c, 0x27, 0x23, 0x61]
TOKS2 = [("20", "23", "27"), ("null", "23", "27"), ("20", "23", "2722"), ("0a", "23", "27"), ("20", "null", "27"),
         ("61", "23", "null"), ("5c", "23", "27"), ("200a", "2361", "275c")]


def scan_group(frags):
    f = "m frags " + frags
    ops = [f] + ["m tok %s %s %s" % t for t in TOKS2]
    ops += ["m argv 20", "m read 1", "m argv 20", "m len", f, "m args 20", f, "m argv 0a", "m argv 0a", f, "m args 5c", "m dhash"]
    return ops


def pieces(total, step):
    """sizes of `total` bytes cut into parts of `step` (at most 60 parts), an empty part in the middle"""
    out = []
    while total > 0 and len(out) < 59:
        out.append(min(step, total))
        total -= out[-1]
    if total:
        out.append(total)
    if len(out) > 2:
        out.insert(len(out) // 2, 0)
    return out


def big_lines(mode, prefix="m"):
    def ln(seed, kind, sizes, n1=0, n2=0):
        return "%s big %s %d %d %s %d %d" % (prefix, mode, seed, kind, ",".join(map(str, sizes)), n1, n2)
    return ln


def big_scripts(tier):
    out = []
    thorough = tier != "quick"
    # one part of every length around the queue steps, contiguous and cut, on a fresh stream
    lens = [1, 255, 256, 257, 258, 511, 512, 513, 514, 700, 769, 1025, 4000] + ([5000, 20000, 70000, 150000] if thorough else [])
    for mode in ("sbuf", "scobs"):
        ln = big_lines(mode)
        for kind in (0, 1, 2):
            ops = ["m frags 61"]
            for L in lens:
                ops.append(ln(L % 17, kind, [L]))
                for st in (1, 7, 100, 256, 300, 900):
                    if L > st and (st > 1 or L <= 60):
                        ops.append(ln(L % 17, kind, pieces(L, st)))
            ops += [ln(3, kind, [100, 0, 256, 300, 44]), ln(4, kind, [0, 1, 513, 1, 0]), ln(5, kind, [200, 258, 300, 512, 513]), "m len"]
            out.append(("big:%s/%d" % (mode, kind), ops))
        # a message in progress behind a flushed one: first message n1 bytes, n2 bytes of the second, flush, remainder
        for n1, n2 in ((100, 10), (5, 10), (180, 10), (100, 1), (246, 3), (0, 10), (100, 0)):
            for kind in (0, 1):
                ops = ["m frags 61"]
                rems = list(range(136, 160)) + [8, 100, 200, 246, 247, 300, 700] + ([2000, 30000] if thorough else [])
                for rem in rems:
                    ops.append(ln(rem % 13, kind, [rem], n1, n2))
                    if rem in (144, 145, 153, 154, 200, 300, 700, 2000):
                        for st in (1, 33, 90, 256):
                            if rem > st and (st > 1 or rem <= 60):
                                ops.append(ln(rem % 13, kind, pieces(rem, st), n1, n2))
                out.append(("big:%s/pre%d.%d/%d" % (mode, n1, n2, kind), ops))
    return out


def all_strings(n):
    return itertools.product(ALPHA, repeat=n)


ARGTEXTS = [b"'a b' c", b'"a\\" b" c', b"  ab  cd ", b"a\\'' b' c", b"\t\n x'y z'w v", b"a,b ,, c", b"a\x00b c\x00\x00d",
            b"#x\n a #y", b" '", b"''  ", b"a\\", b"\\'a 'b"]


def scripts(tier, seed, scale=1):
    return _scripts(tier, seed, scale)


def _scripts(tier, seed, scale=1):
    out = []
    for n in range(0, 4 if tier == "quick" else 5):
        for s in all_strings(n):
            # length 4 (thorough only): every composition, at most one empty fragment inserted
            for nm, fr in fraglists(bytes(s), 2 if n <= 3 else 1):
                for tag, ops in groups(fr, n):
                    out.append(("ex:%s:%s" % (nm, tag), ops))
    for n in range(0, 4 if tier == "quick" else 5):
        for s in itertools.product(ALPHA2, repeat=n):
            for nm, fr in fraglists(bytes(s), 2 if n <= 3 else 1):
                out.append(("ex2:%s" % nm, scan_group(fr)))
    out.append(("guards", ["m guards", "m frags 61,-,62", "m guards", "m len"]))
    # seeded samples of the next scopes (length 4 with two empty fragments; thorough: length 5 as well)
    r = gen.rng(id, tier, seed, "sample")
    nsample = (400 if tier == "quick" else 3000) * scale
    for ln in ((4,) if tier == "quick" else (4, 5)):
        comps = list(compositions(ln))
        for k in range(nsample):
            s = bytes(r.choice(ALPHA) for _ in range(ln))
            sizes = r.choice(list(with_empties(r.choice(comps))))
            fr = cut(s, sizes)
            for tag, ops in groups(fr, ln):
                out.append(("smp:%s/%s:%s" % (gen.hexs(s), "x".join(map(str, sizes)), tag), ops))
    # boundary-directed: argument texts cut at every pair of positions (+ an empty fragment in between)
    for t in ARGTEXTS:
        n = len(t)
        seen = set()
        for i in range(0, n + 1):
            for j in range(i, n + 1):
                for sizes in ([i, j - i, n - j], [i, 0, j - i, n - j]):
                    fr = cut(t, sizes)
                    if fr in seen:
                        continue
                    seen.add(fr)
                    f = "m frags " + fr
                    nm = "arg:%d/%s" % (ARGTEXTS.index(t), "x".join(map(str, sizes)))
                    for s in ("20", "00", "2c", "0a"):
                        out.append((nm + ":v" + s, [f, "m argv " + s, "m read 2", "m argv " + s]))
                        out.append((nm + ":s" + s, [f, "m args " + s]))
                    out.append((nm + ":t", [f, "m tok 20 23 2722", "m tok null 23 27", "m tok null null 2722", "m tok 2c null null",
                                            "m tok null 23 null", "m tok 0a 23 22"]))
    # command messages through mpt_dispatch_hash: type header + command word of 1..4 and 120..135 bytes (+ rest), cut
    # inside the header, inside the word, at its end, with empty fragments; contiguous = the first cut
    for sepb, tail in ((0x20, b" xy"), (0x00, b"\x00z"), (0x2c, b",r")):
        for wl in list(range(1, 5)) + list(range(120, 136)) + ([300] if tier != "quick" else []):
            word = bytes(0x61 + (i % 20) for i in range(wl))
            body = bytes([4, sepb]) + word + tail
            n = len(body)
            cuts = [[n], [1, n - 1], [2, wl, n - 2 - wl], [2, 0, wl - 1, 1, 0, n - 2 - wl] if wl > 1 else [2, 0, 1, n - 3],
                    [3, n - 3], [2 + wl // 2, n - 2 - wl // 2], [2 + wl - 1, 0, 0, 1, n - 2 - wl], [0, 2 + wl, n - 2 - wl], [2, wl + 1, n - 3 - wl]]
            ops = []
            for sizes in cuts:
                ops += ["m frags " + cut(body, sizes), "m dhash"]
            out.append(("dh:%02x/%d" % (sepb, wl), ops))
    out.append(("dh:misc", ["m frags 04", "m dhash", "m frags 04,20", "m dhash", "m frags 0420,-,2020", "m dhash", "m frags 0500,6162,0063", "m dhash",
                            "m frags 0420,2761,2062,2720", "m dhash", "m frags -", "m dhash", "m dhash x", "m sappend", "m sappend tcp"]))
    # fragment lists through mpt_stream_append: empty fragments in every position, longer parts (COBS blocks of 254)
    for sizes in ([0, 3, 0, 0, 2, 0], [1, 0, 1, 0, 1], [0, 0, 0], [300, 0, 10], [0, 253, 0, 1, 0], [254, 0, 254, 0], [5, 0]):
        fr = ",".join(gen.hexs([0x41 + i] * n) for i, n in enumerate(sizes))
        out.append(("sa:" + "x".join(map(str, sizes)), ["m frags " + fr, "m sappend cobs", "m sappend nl", "m read 2", "m sappend cobs", "m sappend nl"]))
    # refused appends: fragment sizes around the buffer capacities (64, 192, ...) so that the first, a middle or the
    # last fragment needs an allocation, on an empty array, a small one and one that is exactly full; the k-th
    # allocation inside the call fails
    SZ = [0, 3, 61, 62, 64, 65, 130, 200, 2000]
    for nf in (1, 2, 3):
        for combo in itertools.product(SZ, repeat=nf):
            if nf == 3 and (tier == "quick") and (combo[0] in (61, 130) or combo[1] in (62, 65) or combo[2] in (61, 64, 130)):
                continue
            fr = ",".join(gen.hexs([0x61 + i] * n) for i, n in enumerate(combo))
            ops = ["m frags " + fr]
            for pre in ("-", "7a7a", "7a" * 64, "7a" * 70):
                ops.append("m append " + pre)
                for k in (1, 2, 3):
                    ops.append("m append %s nomem:%d" % (pre, k))
            out.append(("app:" + "x".join(map(str, combo)), ops))
    # long generated messages (up to 150000 bytes) through mpt_stream_append on a buffered stream to a file: without
    # encoder (write queue grown in steps of 256 bytes: a part longer than the free space + 256 takes three and more
    # queue steps) and with the COBS encoder; with a finished first message, the start of the next one and a flush
    # in between (unfinished bytes at a queue offset > 0, parts reaching the physical end of the ring)
    for nm, ops in big_scripts(tier):
        out.append((nm, ops))
    # every queue of capacity <= 4 (thorough 5) through mpt_message_get
    qtop = 4 if tier == "quick" else 5
    for mx in range(1, qtop + 1):
        for off in range(0, mx + 1):
            for ln in range(0, mx + 1):
                fill = gen.hexs([0x61 + i for i in range(ln)])
                ops = []
                for pos in range(0, ln + 2):
                    for take in range(0, ln + 2):
                        ops += ["m qget %d %d %s %d %d" % (mx, off, fill, pos, take), "m len", "m append 7a", "m read 1", "m chr 62",
                                "m qget %d %d %s %d %d novec" % (mx, off, fill, pos, take), "m len"]
                out.append(("qget:%d/%d/%d" % (mx, off, ln), ops))
    # random structured histories
    r = gen.rng(id, tier, seed, "random")
    rich = [0x20, 0x20, 0x09, 0x0a, 0x61, 0x62, 0x63, 0x00, 0x22, 0x27, 0x5c, 0x23, 0x2c]
    nrand = (300 if tier == "quick" else 4000) * scale
    for k in range(nrand):
        n = r.choice([0, 1, 2, 6, 12, 25, 40])
        data = bytes(r.choice(rich) for _ in range(n))
        nf = r.choice([1, 2, 2, 3, 4, 6])
        cuts = sorted(r.randrange(n + 1) for _ in range(nf - 1))
        sizes = [b - a for a, b in zip([0] + cuts, cuts + [n])]
        fr = cut(data, sizes)
        lines = ["m frags " + fr]
        for _ in range(r.choice([4, 10, 20])):
            kind = r.choice(["read", "read", "len", "chr", "rchr", "str", "rstr", "fcn", "rfcn", "tok", "cpy", "argv", "argv",
                             "args", "append", "frags", "bad"])
            b = "%02x" % r.choice(rich)
            st = gen.hexs([r.choice(rich) for _ in range(r.choice([0, 1, 2, 3]))])
            if kind == "read":
                lines.append("m read %d%s" % (r.choice([0, 1, 2, 3, n, n + 1, r.randrange(n + 2)]), r.choice(["", "", " nodst"])))
            elif kind == "len":
                lines.append("m len")
            elif kind in ("chr", "rchr"):
                lines.append("m %s %s" % (kind, b))
            elif kind in ("str", "rstr", "fcn", "rfcn"):
                lines.append("m %s %s" % (kind, st))
            elif kind == "tok":
                def cs():
                    return r.choice(["null", "-", gen.hexs([r.choice([x for x in rich if x]) for _ in range(r.choice([1, 2, 3]))])])
                lines.append("m tok %s %s %s" % (cs(), cs(), cs()))
            elif kind == "cpy":
                nd = r.choice([1, 2, 3, 5])
                lines.append("m cpy %d %s" % (r.choice([-1, -5, 0, 1, n, n + 1, r.randrange(n + 2)]),
                                              ",".join(str(r.choice([0, 1, 2, 5, n])) for _ in range(nd))))
            elif kind in ("argv", "args"):
                lines.append("m %s %s" % (kind, r.choice(["00", "20", "20", "0a", "2c", "61", "ff", b])))
            elif kind == "append":
                lines.append("m append " + st)
            elif kind == "frags":
                lines.append("m frags " + fr)
            else:
                lines.append(r.choice(["m read", "m read x", "m chr 1", "m chr 123", "m frags 6", "m frags 61,,62", "m frags ,61",
                                       "m tok 20 23", "m tok 2000 null null", "m cpy 1 ", "m cpy 1 1,,2", "m cpy x 3", "m argv 200",
                                       "m str zz", "m nop", "q len", "m append zero:3", "m qget 0 0 - 0 0", "m read 1 dst"]))
        out.append(("rnd:%d" % k, lines))
    return out


def _fields(ln):
    i = ln.find("| I ")
    if i < 0:
        return {}
    return dict(x.split("=", 1) for x in ln[i + 4:].split() if "=" in x)


def _ret(ln):
    sec = _run.sections(ln).get("R", "")
    for x in sec.split():
        if x.startswith("ret="):
            return x[4:]
    return None


def crossed(op, ln):
    """did this op, judged by the code's output line, work across a fragment boundary?"""
    w = op.split()
    if len(w) < 2 or ln == "bad-op" or not ln.startswith("R "):
        return False
    if w[1] == "big" and len(w) == 8:
        # several non-empty parts, or one part that needs more than one queue step / encoder pass
        sz = [int(x) for x in w[5].split(",") if x.isdigit()]
        return len([x for x in sz if x]) >= 2 or max(sz + [0]) > 256
    f = _fields(ln)
    try:
        u0, ne = int(f["u0"]), int(f["ne0"])
    except (KeyError, ValueError):
        return False
    kind = w[1]
    if kind == "qget":
        return f.get("clen") == "1" and f.get("used") not in (None, "0")
    if ne < 2:
        return False
    ret = _ret(ln)
    if kind == "read":
        return w[2].isdigit() and int(w[2]) > u0
    if kind == "append" and len(w) > 3:
        # refused after at least one fragment had been appended (allocs >= 2)
        return ret == "MissingBuffer" and f.get("allocs", "0").isdigit() and int(f["allocs"]) >= 2
    if kind == "dhash":
        # the command word is not contained in the fragment the header ends in
        return ret == "called" and int(f.get("clen", "0")) >= 1
    if kind in ("len", "rchr", "rstr", "rfcn", "args", "append", "sappend"):
        return True
    if kind in ("chr", "str", "fcn", "tok"):
        return ret == "none" or (ret is not None and ret.isdigit() and int(ret) >= u0)
    if kind == "cpy":
        return ret is not None and ret.isdigit() and int(ret) > u0
    if kind == "argv":
        return (ret is not None and ret.isdigit() and int(ret) >= int(f.get("used", "0"))) or f.get("clen") != str(ne - 1)
    return False


def nontrivial(script, c_lines):
    for op, ln in zip(script, c_lines):
        if crossed(op, ln):
            return True
    return False


def tally(chk, script, c_lines):
    d = chk.__dict__.setdefault("distribution", {})
    for op, ln in zip(script, c_lines):
        w = op.split()
        k = w[1] if len(w) > 1 else "?"
        d[k] = d.get(k, 0) + 1
        if crossed(op, ln):
            d["crossing:" + k] = d.get("crossing:" + k, 0) + 1
        if ln == "bad-op":
            d["bad-op"] = d.get("bad-op", 0) + 1


def finding_key(script, res):
    op = (res.get("op") or "").split()
    return "%s:%s" % (res["kind"], op[1] if len(op) > 1 else "?")


class _XX:
    """second part: mpt::encode_array::push(const message &) (mpt++/array.cpp) through harness/drvxx_message.cpp: long
    generated messages, contiguous and cut, pushed into a COBS / COBS-ZPE encoding array; the decoded message is compared"""
    id = "C17"
    area = "message"
    driver = "drvxx_message"
    cxx = True
    fixed_lines = 1
    link_extra = ["-fno-sanitize=vptr"]

    @staticmethod
    def corpus(chk):
        return [(n, sc) for n, sc in gen.corpus(id) if sc and sc[0].startswith("xm ")]

    @staticmethod
    def scripts(tier, seed, scale=1):
        out = []
        thorough = tier != "quick"
        # one push takes ceil(overhead / 128) + 1 encoder passes: lengths around 254 * 128 + 64 = 32576 need three
        lens = [1, 10, 254, 255, 1000, 4096, 20000, 32575, 32576, 32577, 32700, 40000] + ([65000, 66000, 70000, 100000, 150000] if thorough else [])
        for mode in ("epush", "ezpe"):
            ln = big_lines(mode, "xm")
            for kind in (0, 1, 2):
                ops = []
                for L in lens:
                    ops.append(ln(L % 17, kind, [L]))
                    for st in (77, 1000, 4096, 20000):
                        if L > st and L / st < 60:
                            ops.append(ln(L % 17, kind, pieces(L, st)))
                ops += [ln(2, kind, [100, 32576, 5]), ln(2, kind, [0, 33000, 0, 33000])]
                out.append(("xbig:%s/%d" % (mode, kind), ops))
            # zero pairs straddling the cut (ZPE looks ahead inside one push only): every cut of short texts
            for kind in (1, 2):
                ops = []
                for L in (5, 9, 16):
                    for a in range(0, L + 1):
                        for b in range(a, L + 1):
                            ops.append(ln(kind, kind, [a, b - a, L - b]))
                out.append(("xcut:%s/%d" % (mode, kind), ops))
        out.append(("xbad", ["xm big epush 1 0 5 1 0", "xm big x 1 0 5 0 0", "xm big epush 1 3 5 0 0", "xm big epush 1 0 5, 0 0", "xm frags 61", "xm big epush 1 0 200000 0 0"]))
        return out

    @staticmethod
    def nontrivial(script, c_lines):
        return any(crossed(op, ln) for op, ln in zip(script, c_lines))

    tally = staticmethod(lambda chk, script, c_lines: tally(chk, script, c_lines))
    finding_key = staticmethod(lambda script, res: finding_key(script, res))


extra_parts = [_XX]
