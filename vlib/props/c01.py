"""C01 — message framing round trip for every codec (COBS, COBS/R, COBS/ZPE, COBS/ZPE+R, command text,
the Python client's encode_cobs)."""
import os
import subprocess
import sys

from .. import build, gen

id = "C01"
area = "codec"
driver = "drv_codec"
cxx = False
fixed_lines = 1
# allocation failures are injected through a wrapped malloc (harness/drv_codec.c)
link_extra = ["-Wl,--wrap=malloc"]
lean_modules = ["Driver.Codec"]
CODECS = ["cobs", "cobs/r", "cobs/zpe", "cobs/zpe+r", "command"]
rule = ("scripts = 'enc new <codec> <cap>' then direct encoder calls on a caller-granted window (push/more/cap/term) "
        "and 'enc check' (the finished frame is decoded by the real decoder), or the same through mpt_array_push "
        "('apush ...'), or 'py <msg> <frame of mpt.py:encode_cobs>'.  Stream 1 (exhaustive) = every message over "
        "{00,01,1f,20,df,e0,ff} up to length 4 (quick) / 5 (thorough) x 5 framings, one push, exact-fit window; "
        "stream 2 = boundary-directed run structures (lengths 30..32, 222..225, 253..256, 508..510) x chunkings x "
        "capacity schedules (ample, exact, byte-wise growth); stream 2d = allocation refused at the 1st/2nd/3rd malloc "
        "of an mpt_array_push call (entry reservation, in-loop growth for pieces ending on the rounded buffer size, "
        "termination) followed by a retry; stream 2b = array pushes that end a maximal block at the "
        "buffer end; stream 2c = deletion ('del k': abort of the message in progress incl. one with finished blocks, "
        "removal of 0..3 finished frames, too many) x 5 framings x window/array, and calls with a NULL window; stream 3 = random structured messages incl. rejected "
        "command text.  Non-trivial = a script in which a frame was finished AND (a block of maximal length was "
        "closed, or a zero pair was folded, or the tail byte was inlined, or a call consumed only part of its input "
        "or was refused for lack of space), counted per distinct script.  Second part (harness/drvxx_codec.cpp): the C++ "
        "wrapper mpt::encode_array ('xa push/term/msg/data/shift/prepare'): 5 framings x pairs of small messages with "
        "data() called while the next message has an open block, random producer/consumer histories with exact frame "
        "consumption, compaction and message (fragment list) pushes; non-trivial there = data() handed out a finished "
        "frame while a block of the next message was open")
assumptions = [
    "libc memcpy/memmove/memchr/malloc/realloc behave as specified; allocation never fails in the harness runs",
    "the encoder window handed to the code is exactly the granted size (heap block of that size under AddressSanitizer)",
    "python3 executing /repo/mpt.py:encode_cobs is the Python client (run once per generation, result embedded in the op line)",
    "separator patterns (scratch != 0) and non-zero delimiters (_ctx != 0) of mpt_encode_string are not reachable through the library (C01.cmd_encoder_closed) and not modelled; message deletion (base->iov_base == NULL) is modelled (encodeCobsDel / encodeStringDel, C01.delete_restores, delete_frame)",
    "the raw path of mpt_array_push (no encoder installed) is not a framing and not part of this property",
]
trusted = ["hand-written models MptModel/Impl/Encode.lean (encoders, array push) tied to mptcore/convert/encode_*.c, "
           "mptcore/array/array_push.c by harness/drv_codec.c (differential execution)",
           "spec decoder Spec/Cobs.lean `dec` compared with the real decoders on every finished frame ('check' ops)",
           "mpt++/array.cpp (encode_array) is compiled into harness/drvxx_codec.cpp with UBSan's vptr check off"]

ALPHA = [0x00, 0x01, 0x1f, 0x20, 0xdf, 0xe0, 0xff]
PYHELPER = r"""
import sys, importlib.util
spec = importlib.util.spec_from_file_location("mpt_client", sys.argv[1])
mod = importlib.util.module_from_spec(spec)
spec.loader.exec_module(mod)
fn = getattr(mod, sys.argv[2])
for ln in sys.stdin:
    ln = ln.strip()
    msg = b"" if ln == "-" else bytes.fromhex(ln)
    try:
        out = bytes(fn(bytearray(msg)))
        print(out.hex() if out else "-")
    except ValueError as e:
        print("raise")
    except Exception as e:
        print("ee")
    sys.stdout.flush()
"""


def py_encode(msgs, fn="encode_cobs"):
    """run mpt.py:<fn> of the tree under test on every message (one python3 process)"""
    path = os.path.join(build.REPO, "mpt.py")
    inp = "\n".join(gen.hexs(m) for m in msgs) + "\n"
    r = subprocess.run([sys.executable, "-c", PYHELPER, path, fn], input=inp.encode(), stdout=subprocess.PIPE,
                       stderr=subprocess.PIPE, timeout=600)
    out = r.stdout.decode().split("\n")
    res = []
    for i in range(len(msgs)):
        res.append(out[i].strip() if i < len(out) and out[i].strip() else "ee")
    return res


def _c_int(expr, enum):
    """value of a C constant expression made of MPT_ENUM(x) names, integers, | and &"""
    import re
    e = re.sub(r"MPT_ENUM\((\w+)\)", lambda m: str(enum[m.group(1)]), expr)
    if not re.fullmatch(r"[\s0-9a-fxA-FX|&()]+", e):
        raise build.BuildError("translator (codec tables): cannot evaluate %r" % expr)
    return int(eval(e, {"__builtins__": {}}))


def extract_tables(repo):
    """the code -> function pairing of encoder.c / decoder.c and the name table of encoding.c, from the sources"""
    import re
    conv = open(os.path.join(repo, "mptcore", "convert.h")).read()
    m = re.search(r"enum MPT_ENUM\(EncodingType\)\s*\{(.*?)\}", conv, re.S)
    if not m:
        raise build.BuildError("translator (codec tables): enum EncodingType not found in convert.h")
    enum = {}
    for name, val in re.findall(r"MPT_ENUM\((\w+)\)\s*=\s*(0x[0-9a-fA-F]+|\d+)", m.group(1)):
        enum[name] = int(val, 0)

    def switch_table(fn):
        src = open(os.path.join(repo, "mptcore", "convert", fn)).read()
        src = re.sub(r"/\*.*?\*/", "", src, flags=re.S)
        sw = re.search(r"switch\s*\((.*?)\)\s*\{(.*)\}\s*\}", src, re.S)
        if not sw:
            raise build.BuildError("translator (codec tables): no switch in " + fn)
        mask = re.search(r"code\s*&\s*(0x[0-9a-fA-F]+|\d+)", sw.group(1))
        rows = []
        for case, ret in re.findall(r"case\s+(.*?):\s*return\s+(\w+)\s*;", sw.group(2), re.S):
            rows.append((_c_int(case, enum), ret))
        dflt = re.search(r"default\s*:\s*return\s+(\w+)\s*;", sw.group(2))
        if not dflt or dflt.group(1) != "0":
            raise build.BuildError("translator (codec tables): unexpected default in " + fn)
        return rows, (int(mask.group(1), 0) if mask else None)

    enc, emask = switch_table("encoder.c")
    dec, dmask = switch_table("decoder.c")
    src = open(os.path.join(repo, "mptcore", "convert", "encoding.c")).read()
    tab = re.search(r"_encodings\[\]\s*=\s*\{(.*?)\};", src, re.S)
    if not tab:
        raise build.BuildError("translator (codec tables): name table not found in encoding.c")
    names = [(n, _c_int(v, enum)) for n, v in re.findall(r'\{\s*"([^"]*)"\s*,\s*(.*?)\s*\}', tab.group(1), re.S)]
    return enum, enc, emask, dec, dmask, names


def generate(chk):
    """regenerate lean/MptModel/Generated/Codec.lean (pairing and name tables) from the tree under test"""
    enum, enc, emask, dec, dmask, names = extract_tables(build.REPO)

    def rows(rs):
        return "[" + ", ".join('(%d, "%s")' % (c, f) for c, f in rs) + "]"
    text = ("/- generated by vlib/props/c01.py from mptcore/convert.h, convert/encoder.c, decoder.c, encoding.c -- do not edit -/\n"
            "namespace Mpt.Generated.Codec\n\n"
            "/-- `mpt_message_encoder`: case value -> returned function (every other code: NULL) -/\n"
            "def encoderTable : List (Nat × String) := %s\n"
            "/-- `switch (code & (mask - 1))`; 0 = the code is used as it is -/\n"
            "def encoderMask : Nat := %d\n\n"
            "/-- `mpt_message_decoder` -/\n"
            "def decoderTable : List (Nat × String) := %s\n"
            "def decoderMask : Nat := %d\n\n"
            "/-- `_encodings[]` of encoding.c: name (character codes) -> id, in table order -/\n"
            "def nameTable : List (List Nat × Nat) := [%s]\n\n"
            "end Mpt.Generated.Codec\n") % (
        rows(enc), 0 if emask is None else emask + 1, rows(dec), 0 if dmask is None else dmask + 1,
        ", ".join('(%s, %d)  /- "%s" -/' % (list(n.encode()), v, n) for n, v in names))
    path = os.path.join(build.LEAN, "MptModel", "Generated", "Codec.lean")
    old = open(path).read() if os.path.exists(path) else None
    if old != text:
        with open(path, "w") as f:
            f.write(text)
    chk.notes.append("translator: Generated/Codec.lean %s" % ("rewritten" if old != text else "unchanged"))


def corpus(chk):
    return [(n, s) for n, s in gen.corpus(id) if not (s and s[0].startswith("xa "))]


def enc_len(codec, n):
    """an upper bound of the frame length of an n byte message"""
    if codec == "command":
        return n + 1
    return n + n // 222 + 3


def chunkings(r, msg, how):
    if how == "one" or len(msg) < 2:
        return [msg] if msg else []
    if how == "bytes":
        return [msg[i:i + 1] for i in range(len(msg))]
    cuts = sorted(set(r.randrange(1, len(msg)) for _ in range(r.choice([1, 2, 3, 6]))))
    out, last = [], 0
    for c in cuts + [len(msg)]:
        out.append(msg[last:c])
        last = c
    return [c for c in out if c]


def script_for(r, codec, msgs, chunk_how, cap_how, via):
    """one script encoding the list of messages"""
    if via == "array":
        lines = ["apush new " + codec]
        for m in msgs:
            for c in chunkings(r, m, chunk_how):
                lines.append("apush push " + gen.hexs(c))
            lines.append("apush term")
            lines.append("apush check")
        return lines
    total = sum(enc_len(codec, len(m)) for m in msgs)
    if cap_how == "ample":
        cap = total + 8
    elif cap_how == "exact":
        cap = 0       # grown on demand by exactly what is missing: every exact-fit situation is visited
    else:
        cap = r.choice([0, 1, 2, 3])
    lines = ["enc new %s %d" % (codec, cap)]
    cur = cap
    step = 1 if cap_how in ("exact", "bytes") else r.choice([1, 2, 5, 64])
    for m in msgs:
        for c in chunkings(r, m, chunk_how):
            lines.append("enc push " + gen.hexs(c))
            # the generator cannot know how much was consumed: offer growth + retry a bounded number of times;
            # 'enc more' is idle when nothing is pending
            need = enc_len(codec, len(c)) + 2
            grow = 0
            while cap_how != "ample" and grow < need:
                cur += step
                grow += step
                lines.append("enc cap %d" % cur)
                lines.append("enc more")
        lines.append("enc term")
        tries = 0
        while cap_how != "ample" and tries < 3:
            cur += 1
            tries += 1
            lines.append("enc cap %d" % cur)
            lines.append("enc term")
        lines.append("enc check")
    return lines


def structured(r, codec):
    """message built from zero / non-zero runs with boundary lengths"""
    runs = [0, 1, 2, 29, 30, 31, 32, 33, 221, 222, 223, 224, 225, 253, 254, 255, 256, 508, 509, 510]
    small = [0, 1, 2, 3, 30, 31]
    msg = []
    for _ in range(r.choice([1, 1, 2, 3, 4])):
        n = r.choice(runs if r.random() < 0.6 else small)
        kind = r.choice(["same", "ramp", "rand", "high"])
        for i in range(n):
            if kind == "same":
                msg.append(7)
            elif kind == "ramp":
                msg.append(1 + (i % 255))
            elif kind == "high":
                msg.append(r.choice([0xdf, 0xe0, 0xe1, 0xfe, 0xff]))
            else:
                msg.append(r.randrange(1, 256))
        z = r.choice([0, 1, 1, 2, 2, 3, 4])
        msg.extend([0] * z)
    # last byte relative to the final block code
    if msg and r.random() < 0.5:
        tail = 0
        for b in reversed(msg):
            if b == 0:
                break
            tail += 1
        code = (tail % 254) + 1
        msg[-1] = r.choice([max(1, code - 1), code, min(255, code + 1), min(255, code + 2), 0xde, 0xdf, 0xe0, 0xff]) if msg[-1] else 0
    if codec == "command" and r.random() < 0.85:
        msg = [b if b else 0x2e for b in msg]
    return msg


def scripts(tier, seed, scale=1):
    out = []
    # ---- stream 1: exhaustive small scope
    top = 4 if tier == "quick" else 5
    msgs = [[]]
    frontier = [[]]
    for _ in range(top):
        frontier = [m + [a] for m in frontier for a in ALPHA]
        msgs.extend(frontier)
    r0 = gen.rng(id, tier, seed, "exhaustive")
    for codec in CODECS:
        # several messages per script keep the process count low; windows are exact-fit at every step
        group = []
        for k, m in enumerate(msgs):
            group.append(m)
            if len(group) == 8 or k == len(msgs) - 1:
                ms = [g for g in group if not (codec == "command" and 0 in g)]
                if ms:
                    out.append(("ex:%s:%d" % (codec, k), script_for(r0, codec, ms, "one", "exact", "window")))
                for g in group:
                    if codec == "command" and 0 in g:
                        out.append(("ex:%s:rej:%d" % (codec, k), ["enc new command 16", "enc push " + gen.hexs(g), "enc term", "enc check"]))
                group = []
    # ---- stream 2: boundary-directed
    r = gen.rng(id, tier, seed, "boundary")
    nb = (60 if tier == "quick" else 700) * scale
    for k in range(nb):
        for codec in CODECS:
            ms = [structured(r, codec) for _ in range(r.choice([1, 1, 2, 3]))]
            if codec == "command":
                ms = [m for m in ms if 0 not in m] or [[0x61]]
            chunk = r.choice(["one", "rand", "rand", "bytes"]) if sum(len(m) for m in ms) < 400 else r.choice(["one", "rand"])
            capm = r.choice(["ample", "exact", "exact", "bytes"])
            if sum(len(m) for m in ms) > 700 and capm != "ample":
                capm = r.choice(["ample", "exact"])
                chunk = "one" if capm == "exact" else chunk
            via = r.choice(["window", "window", "array"])
            out.append(("bd:%s:%d" % (codec, k), script_for(r, codec, ms, chunk, capm, via)))
    # ---- stream 2b: mpt_array_push with a maximal block ending exactly at the end of the array buffer
    # (usable sizes are 64, 192, 320, ...): a first push of l1 bytes ending in a zero, then full blocks
    for codec in CODECS[:4]:
        full = 222 if "zpe" in codec else 254
        for l1 in list(range(60, 71)) + list(range(92, 103)) + [2, 1]:
            for l2 in (full, 2 * full, full + 1):
                first = [0x11] * (l1 - 1) + [0]
                second = [1 + (i % 200) for i in range(l2)]
                out.append(("ap:%s:%d:%d" % (codec, l1, l2),
                            ["apush new " + codec, "apush push " + gen.hexs(first), "apush push " + gen.hexs(second),
                             "apush term", "apush check", "apush push " + gen.hexs(second[:full]), "apush term", "apush check"]))
    # ---- stream 2d: refused allocations inside mpt_array_push (wrapped malloc): at function entry, in the retry loop
    # (a piece that ends exactly on the rounded buffer size needs an in-loop growth), at the termination; then a retry
    from . import c03 as _c03
    for codec in CODECS:
        for m1 in ([], [0x61, 0x61], [0x61, 0, 0x62, 0x63, 0x64]):
            m1c = [b or 0x2e for b in m1] if codec == "command" else m1
            done = (len(m1c) + 1) if codec == "command" else len(_c03.ref_encode(codec, m1c))
            for k in (2, 3, 8):
                L = 128 * k - 64 - done
                piece = [1 + (i % 200) for i in range(L)]
                for fail in (1, 2, 3):
                    lines = ["apush new " + codec]
                    if m1c:
                        lines.append("apush push " + gen.hexs(m1c))
                    lines += ["apush term", "apush check", "apush failpush %d %s" % (fail, gen.hexs(piece)), "apush more", "apush more",
                              "apush failterm %d" % fail, "apush term", "apush check", "apush push 6465", "apush term", "apush check"]
                    out.append(("af:%s:%d:%d:%d" % (codec, len(m1c), k, fail), lines))
    # ---- stream 2c: message deletion (abort of the message in progress, removal of finished frames) and the
    # uninitialized window (NULL base)
    rd = gen.rng(id, tier, seed, "delete")
    partials = [[], [0x62], [0x62, 0x62, 0, 0x63], [0, 0], [9] * 300, [9] * 254 + [0, 0, 7]]
    for codec in CODECS:
        for pi, part in enumerate(partials):
            if codec == "command":
                part = [b if b else 0x2e for b in part]
            for nfin in (0, 1, 2):
                for k in (0, 1, 2, 3):
                    for via in ("enc", "apush"):
                        if via == "apush" and k == 0:
                            continue
                        new = "enc new %s 1200" % codec if via == "enc" else "apush new " + codec
                        pre = "enc" if via == "enc" else "apush"
                        lines = [new]
                        if via == "enc" and pi == 0:
                            lines += ["enc nullwin term", "enc nullwin 6161", "enc nullwin -"]
                        for f in range(nfin):
                            lines += ["%s push %s" % (pre, gen.hexs([0x61 + f] * (f + 1))), pre + " term"]
                        if part:
                            lines.append("%s push %s" % (pre, gen.hexs(part)))
                            if via == "enc":
                                lines += ["enc nullwin term", "enc nullwin 61"]
                        elif via == "enc" and nfin:
                            lines += ["enc nullwin 61", "enc nullwin term"]
                        lines += ["%s del %d" % (pre, k)]
                        if part and nfin and k == 1:
                            # a second deletion right behind the abort: no message is in progress any more
                            lines += ["%s del 1" % pre]
                        lines += ["%s push 64" % pre, pre + " term", pre + " check",
                                  "%s del 1" % pre, pre + " term", pre + " check"]
                        out.append(("del:%s:%d:%d:%d:%s" % (codec, pi, nfin, k, via), lines))
    # ---- stream 3: random structured, incl. rejected command text, plus the Python encoder
    r = gen.rng(id, tier, seed, "random")
    nr = (60 if tier == "quick" else 600) * scale
    for k in range(nr):
        codec = r.choice(CODECS)
        ms = []
        for _ in range(r.choice([1, 2, 4])):
            n = r.choice([0, 1, 2, 5, 17, 64, 300])
            p0 = r.choice([0.0, 0.05, 0.3, 0.7])
            ms.append([0 if r.random() < p0 else r.randrange(1, 256) for _ in range(n)])
        if codec == "command":
            lines = ["enc new command %d" % r.choice([4, 64, 1000])]
            for m in ms:
                for c in chunkings(r, m, "rand"):
                    lines.append("enc push " + gen.hexs(c))
                lines.append("enc term")
                lines.append("enc check")
            out.append(("rnd:command:%d" % k, lines))
        else:
            out.append(("rnd:%s:%d" % (codec, k), script_for(r, codec, ms, r.choice(["one", "rand"]), r.choice(["ample", "bytes"]) if sum(map(len, ms)) < 200 else "ample", r.choice(["window", "array"]))))
    # Python client encoder
    pm = [m for m in msgs if len(m) <= 3]
    rp = gen.rng(id, tier, seed, "python")
    for n in [253, 254, 255, 256, 507, 508, 509, 510, 762, 763]:
        pm.append([7] * n)
        pm.append([1 + (i % 255) for i in range(n)])
        pm.append([7] * n + [0, 5])
        pm.append([0] + [9] * n)
    for _ in range((40 if tier == "quick" else 400) * scale):
        pm.append(structured(rp, "cobs"))
    frames = py_encode(pm)
    for k in range(0, len(pm), 16):
        out.append(("py:%d" % k, ["py %s %s" % (gen.hexs(m), f) for m, f in zip(pm[k:k + 16], frames[k:k + 16])]))
    # coding number -> function pairing (encoder.c, decoder.c) and name table (encoding.c)
    lk = ["lookup enc %d" % n for n in range(0, 140)] + ["lookup dec %d" % n for n in range(0, 140)]
    lk += ["lookup enc %d" % n for n in (255, 256, 258, 1000)] + ["lookup dec %d" % n for n in (255, 256, 258, 1000)]
    lk += ["lookup type %d" % n for n in range(0, 20)] + ["lookup type 130"]
    for nm in ["", "none", "command", "cobs", "cobs/r", "cobs/zpe", "cobs/c", "cobs/zpe+r", "COBS", "Cobs/R", "cobs/", "cob", "cobs/zpe+", "cobs/zpe+rr", "x"]:
        lk.append("lookup name " + gen.hexs(nm.encode()))
    for k in range(0, len(lk), 40):
        out.append(("lookup:%d" % k, lk[k:k + 40]))
    # Python client command framing (admits exactly the zero-free messages)
    cm = [m for m in msgs if len(m) <= 3] + [[0x68] * 300, [0x68] * 299 + [0], [0] + [0x69] * 40]
    cframes = py_encode(cm, "encode_command")
    for k in range(0, len(cm), 16):
        out.append(("pycmd:%d" % k, ["pycmd %s %s" % (gen.hexs(m), f) for m, f in zip(cm[k:k + 16], cframes[k:k + 16])]))
    return out


class _XA:
    """second part: the C++ wrapper mpt::encode_array (mpt++/array.cpp) through harness/drvxx_codec.cpp"""
    id = "C01"
    area = "codec"
    driver = "drvxx_codec"
    cxx = True
    fixed_lines = 1
    # the buffers are C objects with a hand-made vtable: UBSan's C++ vptr check cannot accept them
    link_extra = ["-fno-sanitize=vptr"]

    @staticmethod
    def corpus(chk):
        return [(n, s) for n, s in gen.corpus(id) if s and s[0].startswith("xa ")]

    @staticmethod
    def scripts(tier, seed, scale=1):
        out = []
        r = gen.rng(id, tier, seed, "xa")
        small = [[0x61, 0x61], [0x62, 0, 0x63], [0], [], [0x64] * 3, [0, 0, 0x65], [9] * 260, [0x66, 0xff]]
        # producer pushes piecewise, consumer takes finished frames out while the next message is in progress
        for codec in CODECS:
            for i, m1 in enumerate(small):
                for j, m2 in enumerate(small[:6]):
                    if codec == "command":
                        m1c, m2c = [b or 0x2e for b in m1], [b or 0x2e for b in m2]
                    else:
                        m1c, m2c = m1, m2
                    lines = ["xa new " + codec]
                    if m1c:
                        lines.append("xa push " + gen.hexs(m1c))
                    lines += ["xa term", "xa data"]
                    half = m2c[:max(1, len(m2c) // 2)]
                    if half:
                        lines.append("xa push " + gen.hexs(half))
                    lines.append("xa data")                       # finished frame + open block of the next message
                    fl = enc_len(codec, len(m1c))
                    lines += ["xa shift %d" % k for k in (fl + 5,)]   # too much: refused
                    lines.append("xa data")
                    if m2c[len(half):]:
                        lines.append("xa push " + gen.hexs(m2c[len(half):]))
                    lines += ["xa term", "xa data", "xa shift 0", "xa data"]
                    out.append(("xa:%s:%d:%d" % (codec, i, j), lines))
        from . import c03
        # compaction (shift 0) between two pieces of a message, behind a consumed prefix: the open block moves too
        for codec in CODECS:
            for m1 in ([0x61] * 5, [0x61] * 100, [0x61, 0, 0x62]):
                for m2, cuts in (([0x70 + (i % 9) for i in range(40)], (1, 7, 39)),
                                 ([1 + (i % 250) for i in range(120)] + [0] + [2 + (i % 200) for i in range(179)], (40, 121, 150, 299)),
                                 ([9, 0, 0, 8, 7], (1, 2, 3, 4))):
                    if codec == "command":
                        m1c, m2c = [b or 0x2e for b in m1], [b or 0x2e for b in m2]
                    else:
                        m1c, m2c = m1, m2
                    fl = len(m1c) + 1 if codec == "command" else len(c03.ref_encode(codec, m1c))
                    for cut in cuts:
                        lines = ["xa new " + codec, "xa push " + gen.hexs(m1c), "xa term", "xa data", "xa shift %d" % fl,
                                 "xa push " + gen.hexs(m2c[:cut]), "xa shift 0", "xa data"]
                        if m2c[cut:]:
                            lines.append("xa push " + gen.hexs(m2c[cut:]))
                        lines += ["xa term", "xa data", "xa shift 0", "xa data"]
                        out.append(("xac:%s:%d:%d:%d" % (codec, len(m1c), len(m2c), cut), lines))
        # exact consumption of frames (lengths computed by the reference encoder), compaction, message pushes
        n = (60 if tier == "quick" else 600) * scale
        for k in range(n):
            codec = r.choice(CODECS)
            lines = ["xa new " + codec]
            pend = []          # lengths of finished, unconsumed frames (only tracked for non-ZPE: ZPE lengths depend on the calls)
            for _ in range(r.choice([2, 4, 8])):
                m = structured(r, codec)[:r.choice([3, 20, 300])]
                if codec == "command":
                    m = [b or 0x2e for b in m]
                how = r.choice(["push", "msg", "chunks"])
                if how == "msg" and m:
                    frs = chunkings(r, m, "rand")
                    if r.random() < 0.3:
                        frs.insert(r.randrange(len(frs) + 1), [])
                    lines.append("xa msg " + ",".join(gen.hexs(f) for f in frs))
                else:
                    for c in chunkings(r, m, "rand" if how == "chunks" else "one"):
                        lines.append("xa push " + gen.hexs(c))
                    if r.random() < 0.4:
                        lines.append("xa data")
                lines.append("xa term")
                if "zpe" not in codec:
                    pend.append(len(m) + 1 if codec == "command" else len(c03.ref_encode(codec, m)))
                lines.append("xa data")
                what = r.choice(["none", "shift1", "shiftall", "compact", "toomuch"])
                if what == "shift1" and pend:
                    lines.append("xa shift %d" % pend.pop(0))
                elif what == "shiftall" and pend:
                    lines.append("xa shift %d" % sum(pend))
                    pend = []
                elif what == "compact":
                    lines.append("xa shift 0")
                elif what == "toomuch":
                    lines.append("xa shift 100000")
                if r.random() < 0.1:
                    lines.append("xa prepare 8")
                lines.append("xa data")
            out.append(("xarnd:%d" % k, lines))
        return out

    @staticmethod
    def nontrivial(script, c_lines):
        # a finished frame was handed out while a block of the next message was open
        for op, ln in zip(script, c_lines):
            if op == "xa data" and ln.startswith("R frames=") and not ln.startswith("R frames=- "):
                i = ln.find("| I ")
                f = dict(x.split("=", 1) for x in ln[i + 4:].split() if "=" in x) if i >= 0 else {}
                if f.get("scratch", "0") != "0":
                    return True
        return False

    @staticmethod
    def tally(chk, script, c_lines):
        d = chk.__dict__.setdefault("distribution", {})
        k = "xa:" + script[0].split()[2]
        d[k] = d.get(k, 0) + 1

    finding_key = staticmethod(lambda script, res: finding_key(script, res))


extra_parts = [_XA]


def _fields(ln):
    i = ln.find("| I ")
    if i < 0:
        return {}
    return dict(x.split("=", 1) for x in ln[i + 4:].split() if "=" in x)


def nontrivial(script, c_lines):
    finished = False
    special = False
    for op, ln in zip(script, c_lines):
        w = op.split()
        if len(w) >= 2 and w[1] == "term" and ln.startswith("R ok"):
            finished = True
        if len(w) >= 2 and w[1] in ("push", "more", "term") and ln.startswith("R refused"):
            f = _fields(ln)
            if f.get("ret") == "MissingBuffer":
                special = True
        if len(w) >= 2 and w[1] in ("push", "more") and ln.startswith("R ok n="):
            try:
                n = int(ln.split()[2][2:])
                if w[1] == "push" and n < len(w[2]) // 2:
                    special = True
            except (ValueError, IndexError):
                pass
        if len(w) >= 2 and w[1] == "check" and " | C " in ln:
            frame = ln.split(" | C ")[1].split(" | ")[0].strip()
            bs = bytes.fromhex(frame) if frame != "-" else b""
            codec = script[0].split()[2]
            # walk the blocks
            i = 0
            maxlen = 0xdf if "zpe" in codec else 0xff
            while codec != "command" and i < len(bs) - 1:
                c = bs[i]
                if c == 0:
                    break               # not a frame body (the code under test produced a delimiter inside): nothing to classify
                if c == maxlen or ("zpe" in codec and c > maxlen):
                    special = True
                n = (c - 1) if c <= maxlen else c - 0xe0
                if i + 1 + n > len(bs) - 1:
                    special = True      # tail inline
                    break
                i += 1 + n
    if script and script[0].startswith("lookup "):
        return any(ln.startswith("R fn=") and not ln.startswith("R fn=none") for ln in c_lines)
    if script and script[0].startswith("pycmd "):
        return any("00" in [op.split()[1][i:i + 2] for i in range(0, len(op.split()[1]), 2)] for op in script)
    if script and script[0].startswith("py "):
        return any(len(op.split()[1]) >= 2 * 254 for op in script)
    return finished and special


def tally(chk, script, c_lines):
    chk.exhaustive = True   # stream 1 enumerates its stated scope completely
    d = chk.__dict__.setdefault("distribution", {})
    w = script[0].split()
    k = "%s:%s" % (w[0], w[2] if len(w) > 2 and w[0] not in ("py", "pycmd", "lookup") else "-")
    d[k] = d.get(k, 0) + 1
    for ln in c_lines:
        if ln.startswith("R refused"):
            d["refused"] = d.get("refused", 0) + 1


def finding_key(script, res):
    op = (res.get("op") or "").split()
    codec = script[0].split()[2] if script and len(script[0].split()) > 2 else "?"
    return "%s:%s:%s" % (res["kind"], codec, " ".join(op[:2]))
